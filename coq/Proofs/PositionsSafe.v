(* PositionsSafe.v — C08 over histories: whatever OTHER people do — any history of transactions none of which is
   signed by the owner, with every call between the contracts, replies, rejected operations and injected faults —
   every position of the owner survives with the same identifier, owner, LP denom, unlocking duration, open/closed
   state and unlock instant, and with at least its recorded amount (others can only add, through the pool manager,
   to an OPEN position); a closed position does not change at all. Hence its owner can still withdraw it in full
   from the unlock instant on, however long and whatever the others did meanwhile. *)
From MD.Model Require Import Base Ownable Epoch PoolMath Types PoolManager FarmManager Chain.
From MD.Proofs Require Import Tactics MapLemmas PoolMathProofs ChainProofs WeightProofs FarmProofs FarmChainProofs FarmCustody FarmCustodyChain.

(* ---------- an induction over call trees that knows who signed the transaction ---------- *)
Lemma handle_target_contract w t s f m r :
  handle w t s f m = Ok r -> t = EM \/ t = FC \/ t = PM \/ t = FM.
Proof.
  intros H. apply handle_ok_typed in H. destruct H as [H _]. unfold handle_typed in H.
  destruct (String.eqb t EM) eqn:E1; [apply String.eqb_eq in E1; auto|].
  destruct (String.eqb t FC) eqn:E2; [apply String.eqb_eq in E2; auto|].
  destruct (String.eqb t PM) eqn:E3; [apply String.eqb_eq in E3; auto|].
  destruct (String.eqb t FM) eqn:E4; [apply String.eqb_eq in E4; auto|]. discriminate.
Qed.

Definition not_signed_by (o : string) (op : op) : Prop :=
  match op with Tx sender _ _ _ => sender <> o | _ => True end.

Section ProcessInvSigner.
  Variable o : string.
  Hypothesis o_not_EM : o <> EM.
  Hypothesis o_not_FC : o <> FC.
  Hypothesis o_not_PM : o <> PM.
  Hypothesis o_not_FM : o <> FM.
  Variable R : world -> world -> Prop.
  Hypothesis R_refl : forall w, R w w.
  Hypothesis R_trans : forall a b c, R a b -> R b c -> R a c.
  Hypothesis R_same : forall w w', same_contracts w w' -> R w w'.
  (* only messages whose IMMEDIATE sender is not [o] have to be considered *)
  Hypothesis R_handle : forall w t s f m w2 subs, s <> o -> handle w t s f m = Ok (w2, subs) -> R w w2.
  Hypothesis R_reply : forall w c id w2 subs, handle_reply w c id = Ok (w2, subs) -> R w w2.

  Lemma process_RS : forall f w c subs w' fl, c <> o -> process f w c subs = (Ok w', fl) -> R w w'.
  Proof.
    induction f as [|f IHf]; intros w c subs w' fl Hc H; [cbn in H; discriminate|].
    revert w H. induction subs as [|s rest IHs]; intros w H.
    - rewrite process_nil in H. inversion H; subst. apply R_refl.
    - rewrite process_cons in H.
      destruct (exec_sub f w c s) as [[w1|e] fl1] eqn:E.
      + assert (R1 : R w w1).
        { unfold exec_sub in E. destruct (sm_msg s) as [to a|a|sd|cn to|cn|target wm funds] eqn:Em;
            try (apply R_same; eapply exec_leaf_same; [|exact E]; reflexivity).
          destruct (match funds with [] => (Ok w, w_fault w) | _ => bank_call w (fun b => bank_send b c target funds) end)
            as [[wa|ea] fla] eqn:Eb; [|discriminate].
          assert (Ra : R w wa).
          { destruct funds; [inversion Eb; subst; apply R_refl | apply R_same; eapply bank_call_same; eauto]. }
          destruct (handle wa target c funds wm) as [[w2 subs2]|eh] eqn:Eh; [|discriminate].
          assert (Ht : target <> o).
          { destruct (handle_target_contract _ _ _ _ _ _ Eh) as [-> | [-> | [-> | ->]]]; auto. }
          eapply R_trans; [exact Ra|]. eapply R_trans; [exact (R_handle _ _ _ _ _ _ _ Hc Eh)|]. eapply IHf; [exact Ht | exact E]. }
        destruct (wants_success (sm_reply s)).
        * destruct (handle_reply w1 c (sm_id s)) as [[w2 rsubs]|er] eqn:Er; [|discriminate].
          destruct (process f w2 c rsubs) as [[w3|e3] fl3] eqn:Ep; [|discriminate].
          eapply R_trans; [exact R1|]. eapply R_trans; [eapply R_reply; eauto|].
          eapply R_trans; [eapply IHf; eauto|]. apply IHs. exact H.
        * eapply R_trans; [exact R1|]. apply IHs. exact H.
      + destruct (wants_error (sm_reply s)); [|discriminate]. cbv zeta in H.
        destruct (handle_reply (set_fault w fl1) c (sm_id s)) as [[w2 rsubs]|er] eqn:Er; [|discriminate].
        destruct (process f w2 c rsubs) as [[w3|e3] fl3] eqn:Ep; [|discriminate].
        eapply R_trans; [apply R_same; apply same_contracts_set_fault|].
        eapply R_trans; [eapply R_reply; eauto|].
        eapply R_trans; [eapply IHf; eauto|]. apply IHs. exact H.
  Qed.

  Hypothesis R_block : forall w b, R w (set_block w b).

  Lemma step_RS w op : not_signed_by o op -> R w (fst (step w op)).
  Proof.
    destruct op as [b|sender target m funds|from to amount|k]; cbn [step fst not_signed_by]; intros Hs.
    - apply R_block.
    - destruct (run_tx w sender target m funds) as [w'|e] eqn:E; cbn [fst].
      + eapply R_trans; [|apply R_same; apply same_contracts_set_fault].
        unfold run_tx in E. destruct (process FUEL w sender [plain (MWasm target m funds)]) as [[w1|e1] fl] eqn:Ep;
          cbn [fst] in E; [|discriminate]. inversion E; subst. eapply process_RS; eauto.
      + apply R_same. apply same_contracts_set_fault.
    - destruct (bank_send (w_bank w) from to amount); cbn [fst]; [apply R_same; apply same_contracts_set_bank | apply R_refl].
    - apply R_same. apply same_contracts_set_fault.
  Qed.

  Lemma run_RS ops : forall w, Forall (not_signed_by o) ops -> R w (run w ops).
  Proof.
    induction ops as [|op r IH]; intros w Hall; cbn [run fold_left]; [apply R_refl|].
    inversion Hall as [|x l Hx Hl]; subst. eapply R_trans; [apply step_RS; exact Hx|]. apply IH. exact Hl.
  Qed.
End ProcessInvSigner.

(* ---------- what a position keeps when somebody else acts ---------- *)
Definition pos_kept (q q' : position) : Prop :=
  pos_id q' = pos_id q /\ pos_recv q' = pos_recv q /\ denom_of (pos_lp q') = denom_of (pos_lp q) /\
  pos_dur q' = pos_dur q /\ pos_open q' = pos_open q /\ pos_exp q' = pos_exp q /\
  amount_of (pos_lp q) <= amount_of (pos_lp q') /\
  (pos_open q = false -> q' = q).

Lemma pos_kept_refl q : pos_kept q q.
Proof. unfold pos_kept. repeat split; auto. lia. Qed.

Lemma pos_kept_trans a b c : pos_kept a b -> pos_kept b c -> pos_kept a c.
Proof.
  unfold pos_kept. intros (A1 & A2 & A3 & A4 & A5 & A6 & A7 & A8) (B1 & B2 & B3 & B4 & B5 & B6 & B7 & B8).
  repeat split; try congruence; try lia.
  intros Hc. assert (b = a) by auto. subst b. auto.
Qed.

(* one farm-manager message from anybody but the owner — the pool manager included *)
Lemma fm_execute_positions_kept w sender funds m s' msgs :
  pos_fresh (w_fm w) -> coins_ok funds = true ->
  fm_execute w sender funds m = Ok (s', msgs) ->
  forall id q, sfind pos_id id (fm_positions (w_fm w)) = Some q ->
    pos_recv q <> sender ->
    exists q', sfind pos_id id (fm_positions s') = Some q' /\ pos_kept q q'.
Proof.
  intros [Hc0 Hfresh] Hfunds H id q Hq Hne.
  assert (Hsame : forall l, sfind pos_id id l = Some q -> exists q', sfind pos_id id l = Some q' /\ pos_kept q q').
  { intros l Hl. exists q. split; [exact Hl | apply pos_kept_refl]. }
  destruct m as [p|p|fid|a|u|oid dur r|pid|pid lp|pid e|u]; cbn [fm_execute] in H.
  - unfold create_farm in H.
    apply bind_ok in H. destruct H as [[] [_ H]].
    apply bind_ok in H. destruct H as [ep [_ H]].
    apply bind_ok in H. destruct H as [[expired live] [_ H]].
    pose proof (close_farms_positions (w_fm w) expired) as Hcf.
    destruct (close_farms (w_fm w) expired) as [s1 submsgs]. cbn [fst] in Hcf.
    inv_all; cbn [fm_set_farms fm_set_farm_counter fm_with fm_positions]; rewrite Hcf; apply Hsame; exact Hq.
  - unfold expand_farm in H. inv_all. apply Hsame; exact Hq.
  - unfold close_farm in H.
    apply bind_ok in H. destruct H as [[] [_ H]].
    apply bind_ok in H. destruct H as [f [_ H]].
    apply bind_ok in H. destruct H as [[] [_ H]]. inversion H; subst. cbn. apply Hsame; exact Hq.
  - inv_all. apply Hsame; exact Hq.
  - apply claim_tables in H. destruct H as (_ & Hp & _). rewrite Hp. apply Hsame; exact Hq.
  - apply create_position_spec in H. destruct H as (_ & lp & recv & identifier & _ & _ & _ & _ & _ & Hfr & Hpos & _).
    rewrite Hpos. apply Hsame. rewrite sfind_sinsert_other; [exact Hq|]. cbn. intros C. subst. congruence.
  - apply expand_position_spec in H. destruct H as (_ & p & lp & Hp & Hlp & _ & Hopen & Hauth & Hpos & _).
    rewrite Hpos. destruct (String.eqb id (pos_id p)) eqn:Eid.
    + apply String.eqb_eq in Eid. subst id.
      rewrite (sfind_key _ _ _ _ Hp) in Hq. rewrite Hp in Hq. inversion Hq; subst q.
      set (v := pos_with p (amount_of (pos_lp p) + amount_of lp) (pos_open p) (pos_exp p)).
      exists v. split; [change (pos_id p) with (pos_id v); apply sfind_sinsert_same|]. subst v.
      assert (0 <= amount_of lp).
      { unfold one_coin in Hlp. destruct funds as [|c0 [|c1 rest]]; try discriminate.
        destruct (amount_of c0 =? 0); [discriminate|]. inversion Hlp; subst lp.
        cbn [coins_ok forallb] in Hfunds. apply andb_true_iff in Hfunds. destruct Hfunds as [Hc _].
        unfold coin_ok, u128_ok in Hc. apply andb_true_iff in Hc. destruct Hc as [Hc _]. lia. }
      unfold pos_kept, pos_with. cbn [pos_id pos_recv pos_lp pos_dur pos_open pos_exp denom_of amount_of fst snd].
      repeat split; auto; try lia. intros C. congruence.
    + apply String.eqb_neq in Eid. apply Hsame. rewrite sfind_sinsert_other; [exact Hq | cbn; exact Eid].
  - apply close_position_spec in H. destruct H as (_ & _ & _ & p & Hp & Ho & _ & _ & _ & _ & Hc).
    cbv zeta in Hc.
    assert (Hidne : id <> pos_id p).
    { intros C. subst id. rewrite (sfind_key _ _ _ _ Hp) in Hq. rewrite Hp in Hq. inversion Hq; subst q. congruence. }
    apply Hsame.
    destruct Hc as [(_ & Hpos & _) | (c & _ & _ & _ & Hpos & _)]; rewrite Hpos.
    + rewrite sfind_sinsert_other; [exact Hq | cbn; exact Hidne].
    + rewrite sfind_sinsert_other by (cbn; exact Hidne).
      rewrite sfind_sinsert_other; [exact Hq|]. cbn [pos_id].
      intros C. subst id. rewrite Hfresh in Hq by lia. discriminate.
  - apply withdraw_position_spec in H. destruct H as (_ & p & Hp & Ho & Hpos & _).
    rewrite Hpos. apply Hsame. rewrite sfind_sremove_other; [exact Hq|].
    intros C. subst id. rewrite Hp in Hq. inversion Hq; subst q. congruence.
  - apply bind_ok in H. destruct H as [[] [_ H]]. unfold fm_update_config in H. inv_all; apply Hsame; exact Hq.
Qed.

(* ---------- over histories ---------- *)
Definition keeps_positions_of (o : string) (a b : world) : Prop :=
  pos_fresh (w_fm a) ->
  pos_fresh (w_fm b) /\
  forall id q, sfind pos_id id (fm_positions (w_fm a)) = Some q -> pos_recv q = o ->
    exists q', sfind pos_id id (fm_positions (w_fm b)) = Some q' /\ pos_kept q q'.

Lemma keeps_same_fm o a b : w_fm b = w_fm a -> keeps_positions_of o a b.
Proof.
  intros E Hf. rewrite E. split; [exact Hf|]. intros id q Hq _. exists q. split; [exact Hq | apply pos_kept_refl].
Qed.

Theorem others_histories_keep_positions o ops w :
  o <> EM -> o <> FC -> o <> PM -> o <> FM ->
  Forall (not_signed_by o) ops ->
  pos_fresh (w_fm w) ->
  forall id q, sfind pos_id id (fm_positions (w_fm w)) = Some q -> pos_recv q = o ->
    exists q', sfind pos_id id (fm_positions (w_fm (run w ops))) = Some q' /\ pos_kept q q'.
Proof.
  intros H1 H2 H3 H4 Hall Hf.
  assert (HR : keeps_positions_of o w (run w ops)).
  { apply (run_RS o H1 H2 H3 H4 (keeps_positions_of o)); try exact Hall.
    - intros x. apply keeps_same_fm. reflexivity.
    - intros a b c Hab Hbc Hfa. destruct (Hab Hfa) as [Hfb Kab]. destruct (Hbc Hfb) as [Hfc Kbc].
      split; [exact Hfc|]. intros id q Hq Ho. destruct (Kab id q Hq Ho) as (q1 & Hq1 & K1).
      assert (Ho1 : pos_recv q1 = o) by (destruct K1 as (_ & E & _); congruence).
      destruct (Kbc id q1 Hq1 Ho1) as (q2 & Hq2 & K2). exists q2. split; [exact Hq2|]. eapply pos_kept_trans; eauto.
    - intros x y (_ & _ & _ & _ & _ & _ & Hfm). apply keeps_same_fm. exact Hfm.
    - intros x t s f m w2 subs Hs H.
      destruct (handle_fm_state _ _ _ _ _ _ _ H) as [E | (fm & -> & -> & msgs & Hx)].
      + apply keeps_same_fm. exact E.
      + intros Hfx. split; [eapply fm_execute_pos_fresh; eauto|].
        intros id q Hq Ho. apply handle_ok_typed in H. destruct H as (_ & Hfunds & _).
        eapply fm_execute_positions_kept; eauto. congruence.
    - intros x c id w2 subs H. apply keeps_same_fm. exact (handle_reply_fm_state _ _ _ _ _ H).
    - intros x b. apply keeps_same_fm. reflexivity. }
  destruct (HR Hf) as [_ K]. exact K.
Qed.

(* a CLOSED position is exactly what it was, so its owner can withdraw it, in full, from the unlock instant on *)
Corollary closed_position_still_withdrawable o ops w id q e :
  o <> EM -> o <> FC -> o <> PM -> o <> FM ->
  Forall (not_signed_by o) ops ->
  pos_fresh (w_fm w) ->
  sfind pos_id id (fm_positions (w_fm w)) = Some q -> pos_recv q = o ->
  pos_open q = false -> pos_exp q = Some e ->
  sfind pos_id id (fm_positions (w_fm (run w ops))) = Some q /\
  ((exists s' msgs, withdraw_position (run w ops) o [] id None = Ok (s', msgs)) <->
   e <= seconds (w_block (run w ops))).
Proof.
  intros H1 H2 H3 H4 Hall Hf Hq Ho Hcl He.
  destruct (others_histories_keep_positions o ops w H1 H2 H3 H4 Hall Hf id q Hq Ho) as (q' & Hq' & K).
  destruct K as (_ & _ & _ & _ & _ & _ & _ & Keq). rewrite (Keq Hcl) in Hq'.
  split; [exact Hq'|].
  assert (Hem : (None : option bool) <> Some true) by discriminate.
  pose proof (withdraw_normal_iff (run w ops) o [] id None q e Hq' Hcl He Hem) as Hiff.
  split.
  - intros Hw. apply Hiff in Hw. tauto.
  - intros Hle. apply Hiff. auto.
Qed.

(* ---------- stated from genesis: the freshness hypothesis holds in every reachable world ---------- *)
Lemma reachable_pos_fresh g w0 pre :
  genesis_world g = Ok w0 -> 0 <= amount_of (fm_create_fee (g_fm g)) -> pos_fresh (w_fm (run w0 pre)).
Proof.
  intros Hg Hfee. apply run_pos_fresh.
  destruct (genesis_custody _ _ Hg Hfee) as [Hfm _]. destruct Hfm as [Hwf _]. destruct Hwf as [Hfresh _]. exact Hfresh.
Qed.

Theorem reachable_positions_safe g w0 pre o ops :
  genesis_world g = Ok w0 -> 0 <= amount_of (fm_create_fee (g_fm g)) ->
  o <> EM -> o <> FC -> o <> PM -> o <> FM ->
  Forall (not_signed_by o) ops ->
  forall id q, sfind pos_id id (fm_positions (w_fm (run w0 pre))) = Some q -> pos_recv q = o ->
    exists q', sfind pos_id id (fm_positions (w_fm (run (run w0 pre) ops))) = Some q' /\ pos_kept q q'.
Proof.
  intros Hg Hfee H1 H2 H3 H4 Hall. apply others_histories_keep_positions; auto.
  eapply reachable_pos_fresh; eauto.
Qed.
