(* FrameChain.v — C17, the frame at TRANSACTION level: changing the switches of a pool changes nothing about any accepted
   pool operation, through the whole call tree (funds transfers, handlers, the swap -> reply -> deposit chain of a
   single-asset provision, locked deposits calling the farm manager, replies). *)
From MD.Model Require Import Base Ownable Epoch PoolMath Types PoolManager FarmManager Chain.
From MD.Proofs Require Import Tactics Arith PoolMathProofs MapLemmas BankProofs SwapProofs ChainProofs PmProofs LiquidityProofs
  AtomicProofs FrameProofs WeightProofs FarmProofs FarmChainProofs FarmCustody FarmCustodyChain PoolCustody PoolCustodyChain.

(* the same world with the switches of pool T set to st *)
Definition reW (T : string) (st : pool_status) (w : world) : world := set_pm w (restat T st (w_pm w)).

Definition lift_out (T : string) (st : pool_status) (o : outcome) : outcome :=
  match o with (Ok w, fl) => (Ok (reW T st w), fl) | (Err e, fl) => (Err e, fl) end.

Lemma bank_call_reW T st w f : bank_call (reW T st w) f = lift_out T st (bank_call w f).
Proof.
  unfold bank_call, fault_tick, reW. cbn [w_fault set_pm]. destruct (w_fault w) as [k|].
  - destruct (k =? 0); [reflexivity|]. cbn [w_bank set_fault set_pm]. destruct (f (w_bank w)); reflexivity.
  - cbn [w_bank set_pm]. destruct (f (w_bank w)); reflexivity.
Qed.

Lemma exec_leaf_reW T st w c m : exec_leaf (reW T st w) c m = lift_out T st (exec_leaf w c m).
Proof.
  destruct m as [to a|a|sd|cn to|cn|t wm fs]; cbn [exec_leaf]; try apply bank_call_reW.
  reflexivity.
Qed.

Lemma fm_execute_reW T st w s f m : fm_execute (reW T st w) s f m = fm_execute w s f m.
Proof. destruct m; reflexivity. Qed.

Lemma handle_reW_not_pm T st w t s f m :
  String.eqb t PM = false ->
  handle (reW T st w) t s f m =
  match handle w t s f m with Ok (w2, subs) => Ok (reW T st w2, subs) | Err e => Err e end.
Proof.
  intros Ht. unfold handle. destruct (coins_ok f && wmsg_ok m); [|reflexivity]. unfold handle_typed. rewrite Ht.
  destruct (String.eqb t EM).
  - destruct m as [em| | |]; try reflexivity.
    change (em_execute (addr_valid (reW T st w)) (w_block (reW T st w)) s (negb (Nat.eqb (List.length f) 0)) em (w_em (reW T st w)))
      with (em_execute (addr_valid w) (w_block w) s (negb (Nat.eqb (List.length f) 0)) em (w_em w)).
    destruct (em_execute (addr_valid w) (w_block w) s (negb (Nat.eqb (List.length f) 0)) em (w_em w)); reflexivity.
  - destruct (String.eqb t FC).
    + destruct m as [|a| |]; try reflexivity.
      destruct (nonpayable f); cbn [bind]; [|reflexivity].
      change (update_ownership (addr_valid (reW T st w)) (w_block (reW T st w)) s a (w_fc (reW T st w)))
        with (update_ownership (addr_valid w) (w_block w) s a (w_fc w)).
      destruct (update_ownership (addr_valid w) (w_block w) s a (w_fc w)); reflexivity.
    + destruct (String.eqb t FM); [|reflexivity].
      destruct m as [| | |fm]; try reflexivity. rewrite fm_execute_reW.
      destruct (fm_execute w s f fm) as [[s1 subs1]|e]; reflexivity.
Qed.

(* ---------- the pool manager's handlers ---------- *)
Lemma route_loop_ok_gates ops : forall s prev ms fm s' out fms,
  route_loop s prev ops ms fm = Ok (s', out, fms) -> Forall (fun o => flag_of s (so_pool o) swaps_enabled = true) ops.
Proof.
  induction ops as [|o r IH]; intros s prev ms fm s' out fms H; [constructor|].
  pose proof H as H0. cbn [route_loop] in H0.
  apply bind_ok in H0. destruct H0 as [p [Hp H0]]. apply bind_ok in H0. destruct H0 as [[] [He _]]. apply ensure_ok in He.
  apply route_loop_cons in H. destruct H as (s1 & sc & Hps & H).
  constructor.
  - unfold flag_of. rewrite Hp. exact He.
  - eapply Forall_impl; [|eapply IH; exact H]. intros a Ha. cbv beta in *.
    rewrite <- (perform_swap_flags _ _ _ _ _ _ _ _ (so_pool a) swaps_enabled Hps). exact Ha.
Qed.

Lemma pm_execute_ok_gate w s f pm r : pool_op pm = true -> pm_execute w s f pm = Ok r -> gate pm (w_pm w) = true.
Proof.
  destruct pm as [denoms decimals fees pt oid | ls ss rc pid u l | ask bp ms rc pid | pid | a | ops mr rc ms | fc fm fee t];
    cbn [pool_op gate pm_execute]; intros Hop H; try discriminate; destruct r as [s' msgs].
  - unfold provide_liquidity in H. apply bind_ok in H. destruct H as [p [Hp H]]. apply bind_ok in H. destruct H as [[] [He _]]. apply ensure_ok in He.
    unfold flag_of. rewrite Hp. exact He.
  - apply swap_spec in H. destruct H as (p & offer & sc & Hp & He & _). unfold flag_of. rewrite Hp. exact He.
  - apply withdraw_spec in H. destruct H as (p & amount & total & ra & Hp & He & _). unfold flag_of. rewrite Hp. exact He.
  - apply exec_ops_spec in H. destruct H as (lst & fo & amount & out & fee_msgs & _ & _ & _ & _ & Hr & _).
    apply route_loop_ok_gates in Hr. rewrite forallb_forall. rewrite Forall_forall in Hr. exact Hr.
Qed.

Lemma reW_set_pm T st w s1 : set_pm (reW T st w) (restat T st s1) = reW T st (set_pm w s1).
Proof. reflexivity. Qed.

Lemma handle_reW_pm T st w s f pm :
  pool_op pm = true -> gate pm (w_pm w) = true -> gate pm (restat T st (w_pm w)) = true ->
  handle (reW T st w) PM s f (WPm pm) =
  match handle w PM s f (WPm pm) with Ok (w2, subs) => Ok (reW T st w2, subs) | Err e => Err e end.
Proof.
  intros Hop G1 G2. unfold handle. destruct (coins_ok f && wmsg_ok (WPm pm)); [|reflexivity].
  unfold handle_typed. cbn [String.eqb EM FC PM FM Ascii.eqb Bool.eqb].
  change (pm_execute (reW T st w) s f pm) with (pm_execute (set_pm w (restat T st (w_pm w))) s f pm).
  rewrite (frame_execute T st w s f pm Hop G1 G2).
  destruct (pm_execute w s f pm) as [[s1 subs1]|e]; cbn [on_state bind]; reflexivity.
Qed.

Lemma handle_reply_reW T st w c id :
  handle_reply (reW T st w) c id =
  match handle_reply w c id with Ok (w2, subs) => Ok (reW T st w2, subs) | Err e => Err e end.
Proof.
  unfold handle_reply. destruct (String.eqb c PM).
  - unfold pm_reply. destruct (id =? 1); [|reflexivity].
    change (pm_buffer (w_pm (reW T st w))) with (pm_buffer (w_pm w)).
    change (w_bank (reW T st w)) with (w_bank w).
    destruct (pm_buffer (w_pm w)) as [b|]; cbn [of_option bind]; [|reflexivity].
    repeat match goal with |- context [bind (ensure ?c ?e) _] => destruct (ensure c e) as [[]|?]; cbn [bind]; try reflexivity end.
  - destruct (String.eqb c FM); [|reflexivity].
    change (fm_reply (reW T st w) id) with (fm_reply w id). destruct (fm_reply w id) as [[s1 subs1]|e]; reflexivity.
Qed.

(* ---------- which messages the contracts emit ---------- *)
Definition call_ok (s : submsg) : Prop := match sm_msg s with MWasm _ (WPm pm) _ => pool_op pm = true | _ => True end.
Definition ok_sub (s : submsg) : Prop := is_leaf (sm_msg s) = true \/ (wants_error (sm_reply s) = false /\ call_ok s).

Ltac okk := shp; repeat first [apply Forall_nil | apply Forall_cons; [first [left; reflexivity | right; split; [reflexivity | first [exact I | reflexivity]]] | ]].

Lemma swap_fee_msgs_ok cfg ask sc : Forall ok_sub (swap_fee_msgs cfg ask sc).
Proof. unfold swap_fee_msgs. apply Forall_app. split; [destruct (sc_burn_fee sc =? 0) | destruct (sc_protocol_fee sc =? 0)]; okk. Qed.

Lemma route_loop_ok ops : forall s prev ms fm s' out fms,
  Forall ok_sub fm -> route_loop s prev ops ms fm = Ok (s', out, fms) -> Forall ok_sub fms.
Proof.
  induction ops as [|o r IH]; intros s prev ms fm s' out fms Hf H.
  - cbn in H. inversion H; subst. exact Hf.
  - apply route_loop_cons in H. destruct H as (s1 & sc & _ & H).
    eapply IH; [|exact H]. apply Forall_app. split; [exact Hf | apply swap_fee_msgs_ok].
Qed.

Lemma pm_execute_ok_subs w sender funds m s' msgs : pm_execute w sender funds m = Ok (s', msgs) -> Forall ok_sub msgs.
Proof.
  destruct m as [denoms decimals fees pt oid | ls ss r pid u l | ask bp ms r pid | pid | a | ops mr r ms | fc fm fee t];
    cbn [pm_execute]; intros H.
  - apply create_pool_checks in H. cbv zeta in H. destruct H as (_ & _ & _ & _ & _ & _ & _ & _ & ->).
    apply Forall_app. split; [destruct (_ =? 0); okk | okk].
  - unfold provide_liquidity in H.
    apply bind_ok in H. destruct H as [p [Hp H]].
    apply bind_ok in H. destruct H as [[] [He H]].
    apply bind_ok in H. destruct H as [deps [Hd H]].
    apply bind_ok in H. destruct H as [[] [_ H]].
    apply bind_ok in H. destruct H as [[] [_ H]].
    destruct deps as [|d0 [|d1 rest]].
    + inv_all; repeat (apply Forall_app; split); okk.
    + inv_all; okk.
    + inv_all; repeat (apply Forall_app; split); okk.
  - apply swap_spec in H. destruct H as (p & offer & sc & _ & _ & _ & _ & _ & ->).
    apply Forall_app. split; [destruct (_ =? 0); okk | apply swap_fee_msgs_ok].
  - unfold withdraw_liquidity in H. inv_all. okk.
  - inv_all. constructor.
  - apply exec_ops_spec in H. destruct H as (lst & f & amount & out & fee_msgs & _ & _ & _ & _ & Hr & _ & ->).
    apply Forall_app. split; [destruct (_ =? 0); okk|].
    eapply route_loop_ok; [|exact Hr]. constructor.
  - apply bind_ok in H. destruct H as [[] [_ H]]. apply update_config_shape in H. destruct H as (_ & -> & _). constructor.
Qed.

Lemma handle_pm_bank' w sender funds pm w2 msgs :
  handle w PM sender funds (WPm pm) = Ok (w2, msgs) ->
  exists s', pm_execute w sender funds pm = Ok (s', msgs) /\ w2 = set_pm w s'.
Proof.
  intros Eh. apply handle_ok_typed in Eh. destruct Eh as (Eh & _ & _).
  unfold handle_typed in Eh. cbn [String.eqb EM FC PM FM Ascii.eqb Bool.eqb] in Eh.
  apply bind_ok in Eh. destruct Eh as [[s1 msgs1] [Hx Eh]]. inversion Eh; subst. eauto.
Qed.

(* ---------- the induction ---------- *)
Section Frame.
  Variables (T : string) (st : pool_status).

  Definition FP (f : nat) : Prop := forall w c subs w' fl w2' fl2,
    fm_inv (w_fm w) -> Forall ok_sub subs ->
    process f w c subs = (Ok w', fl) -> process f (reW T st w) c subs = (Ok w2', fl2) ->
    w2' = reW T st w' /\ fl2 = fl /\ fm_inv (w_fm w').

  Lemma handle_subs_ok w t c funds wm w2 subs2 :
    fm_inv (w_fm w) -> handle w t c funds wm = Ok (w2, subs2) -> Forall ok_sub subs2 /\ fm_inv (w_fm w2).
  Proof.
    intros Hinv H. destruct (String.eqb t PM) eqn:Et.
    - apply String.eqb_eq in Et. subst t. pose proof H as H0.
      apply handle_ok_typed in H0. destruct H0 as (H0 & _ & _). unfold handle_typed in H0.
      cbn [String.eqb EM FC PM FM Ascii.eqb Bool.eqb] in H0. destruct wm as [| |pm|]; try discriminate.
      apply bind_ok in H0. destruct H0 as [[s1 subs1] [Hx H0]]. inversion H0; subst w2 subs2.
      split; [eapply pm_execute_ok_subs; eauto | exact Hinv].
    - destruct (String.eqb t FM) eqn:Ef.
      + apply String.eqb_eq in Ef. subst t.
        destruct (handle_fm_accounted _ _ _ _ _ _ Hinv H) as (fm & _ & _ & [Hsends _] & Hinv2 & _).
        split; [|exact Hinv2]. eapply Forall_impl; [|exact Hsends]. intros a (to & cs & E). left. rewrite E. reflexivity.
      + apply handle_ok_typed in H. destruct H as (H & _ & _). unfold handle_typed in H. rewrite Et, Ef in H.
        destruct (String.eqb t EM); [destruct wm; inv_all; split; [constructor | exact Hinv]|].
        destruct (String.eqb t FC); [destruct wm; inv_all; split; [constructor | exact Hinv] | discriminate].
  Qed.

  Lemma exec_sub_frame f : FP f -> forall w c s,
    fm_inv (w_fm w) -> ok_sub s ->
    match exec_sub f w c s, exec_sub f (reW T st w) c s with
    | (Ok w1, fl1), (Ok w1', fl1') => w1' = reW T st w1 /\ fl1' = fl1 /\ fm_inv (w_fm w1)
    | (Err _, fl1), (Err _, fl1') => (is_leaf (sm_msg s) = true /\ fl1' = fl1) \/ wants_error (sm_reply s) = false
    | _, _ => wants_error (sm_reply s) = false
    end.
  Proof.
    intros IH w c s Hinv Hok. unfold exec_sub.
    destruct (sm_msg s) as [to a|a|sd|cn to|cn|t wm funds] eqn:Em.
    1-5: (rewrite exec_leaf_reW;
          match goal with |- context [exec_leaf ?w0 ?c0 ?m] =>
            destruct (exec_leaf w0 c0 m) as [[w1|e] fl1] eqn:El; cbn [lift_out];
            [split; [reflexivity|]; split; [reflexivity|];
             pose proof (exec_leaf_same w0 c0 m w1 fl1 eq_refl El) as (_ & _ & _ & _ & _ & _ & Hf); rewrite Hf; exact Hinv
            | left; split; reflexivity] end).
    (* a contract call *)
    assert (Hwe : wants_error (sm_reply s) = false /\ call_ok s).
    { destruct Hok as [Hl|Hr]; [rewrite Em in Hl; discriminate | exact Hr]. }
    destruct Hwe as [Hwe Hcall]. unfold call_ok in Hcall. rewrite Em in Hcall.
    assert (Hrest : forall wa fla, fm_inv (w_fm wa) ->
      match (match handle wa t c funds wm with Ok (w2, subs2) => process f w2 t subs2 | Err e => (Err e, fla) end),
            (match handle (reW T st wa) t c funds wm with Ok (w2, subs2) => process f w2 t subs2 | Err e => (Err e, fla) end) with
      | (Ok w1, fl1), (Ok w1', fl1') => w1' = reW T st w1 /\ fl1' = fl1 /\ fm_inv (w_fm w1)
      | (Err _, fl1), (Err _, fl1') => (is_leaf (MWasm t wm funds) = true /\ fl1' = fl1) \/ wants_error (sm_reply s) = false
      | _, _ => wants_error (sm_reply s) = false
      end).
    { intros wa fla Hinva.
      destruct (String.eqb t PM) eqn:Et.
      - apply String.eqb_eq in Et. subst t.
        destruct (handle wa PM c funds wm) as [[w2 subs2]|eh] eqn:Eh;
          destruct (handle (reW T st wa) PM c funds wm) as [[w2r subs2r]|ehr] eqn:Ehr.
        + (* both handlers accept: they read the same switches as on, and commute *)
          assert (Hpm : exists pm, wm = WPm pm).
          { apply handle_ok_typed in Eh. destruct Eh as (Eh & _ & _). unfold handle_typed in Eh.
            cbn [String.eqb EM FC PM FM Ascii.eqb Bool.eqb] in Eh. destruct wm as [| |pm|]; try discriminate. eauto. }
          destruct Hpm as [pm ->].
          destruct (handle_pm_bank' _ _ _ _ _ _ Eh) as (s1 & Hx & ->).
          destruct (handle_pm_bank' _ _ _ _ _ _ Ehr) as (s1r & Hxr & ->).
          pose proof (pm_execute_ok_gate _ _ _ _ _ Hcall Hx) as G1.
          pose proof (pm_execute_ok_gate _ _ _ _ _ Hcall Hxr) as G2. cbn [w_pm reW set_pm] in G2.
          pose proof Ehr as Ehr'. rewrite (handle_reW_pm T st wa c funds pm Hcall G1 G2), Eh in Ehr'. inversion Ehr'; subst subs2r.
          rewrite reW_set_pm.
          destruct (handle_subs_ok _ _ _ _ _ _ _ Hinva Eh) as [Hoks Hinv2].
          destruct (process f (set_pm wa s1) PM subs2) as [[w1|e1] fl1] eqn:E1;
            destruct (process f (reW T st (set_pm wa s1)) PM subs2) as [[w1r|e1r] fl1r] eqn:E1r; try exact Hwe; [|right; exact Hwe].
          exact (IH _ _ _ _ _ _ _ Hinv2 Hoks E1 E1r).
        + destruct (process f w2 PM subs2) as [[w1|e1] fl1]; first [exact Hwe | right; exact Hwe].
        + destruct (process f w2r PM subs2r) as [[w1|e1] fl1]; first [exact Hwe | right; exact Hwe].
        + right. exact Hwe.
      - rewrite (handle_reW_not_pm T st wa t c funds wm Et).
        destruct (handle wa t c funds wm) as [[w2 subs2]|eh] eqn:Eh; [|right; exact Hwe].
        destruct (handle_subs_ok _ _ _ _ _ _ _ Hinva Eh) as [Hoks Hinv2].
        destruct (process f w2 t subs2) as [[w1|e1] fl1] eqn:E1;
          destruct (process f (reW T st w2) t subs2) as [[w1r|e1r] fl1r] eqn:E1r; try exact Hwe; [|right; exact Hwe].
        exact (IH _ _ _ _ _ _ _ Hinv2 Hoks E1 E1r). }
    destruct funds as [|f0 fr].
    - apply (Hrest w (w_fault w) Hinv).
    - rewrite bank_call_reW.
      destruct (bank_call w (fun b => bank_send b c t (f0 :: fr))) as [[wa|ea] fla] eqn:Eb; cbn [lift_out]; [|right; exact Hwe].
      apply (Hrest wa fla). pose proof (bank_call_same _ _ _ _ Eb) as (_ & _ & _ & _ & _ & _ & Hf). rewrite Hf. exact Hinv.
  Qed.

  Lemma set_fault_reW w fl : set_fault (reW T st w) fl = reW T st (set_fault w fl).
  Proof. reflexivity. Qed.

  Theorem process_frame : forall f, FP f.
  Proof.
    induction f as [|f IHf]; intros w c subs w' fl w2' fl2 Hinv Hoks H H2; [cbn in H; discriminate|].
    revert w H H2 Hinv. induction subs as [|s rest IHs]; intros w H H2 Hinv.
    - rewrite process_nil in H, H2. inversion H; inversion H2; subst. split; [reflexivity|]. split; [reflexivity | exact Hinv].
    - rewrite process_cons in H, H2. inversion Hoks as [|x xs Hs Hr]; subst.
      pose proof (exec_sub_frame f IHf w c s Hinv Hs) as Hx.
      destruct (exec_sub f w c s) as [[w1|e1] fl1] eqn:E1; destruct (exec_sub f (reW T st w) c s) as [[w1r|e1r] fl1r] eqn:E1r.
      + destruct Hx as (-> & -> & Hinv1).
        destruct (wants_success (sm_reply s)).
        * rewrite handle_reply_reW in H2.
          destruct (handle_reply w1 c (sm_id s)) as [[w2 rsubs]|er] eqn:Er; [|discriminate].
          destruct (process f w2 c rsubs) as [[w3|e3] fl3] eqn:E3; [|discriminate].
          destruct (process f (reW T st w2) c rsubs) as [[w3r|e3r] fl3r] eqn:E3r; [|discriminate].
          (* the reply's messages *)
          assert (Hrep : Forall ok_sub rsubs /\ fm_inv (w_fm w2)).
          { unfold handle_reply in Er. destruct (String.eqb c PM) eqn:Ec.
            - apply bind_ok in Er. destruct Er as [[s2 subs2] [Hr2 Er]]. inversion Er; subst w2 rsubs.
              apply pm_reply_spec in Hr2. destruct Hr2 as (_ & b & _ & _ & _ & _ & ->).
              split; [constructor; [right; split; [reflexivity | reflexivity] | constructor] | exact Hinv1].
            - destruct (String.eqb c FM); [|discriminate].
              apply bind_ok in Er. destruct Er as [[s2 subs2] [Hr2 Er]]. inversion Er; subst w2 rsubs.
              apply fm_reply_spec in Hr2. destruct Hr2 as (-> & -> & _). split; [constructor | exact Hinv1]. }
          destruct Hrep as [Hroks Hinv2].
          destruct (IHf _ _ _ _ _ _ _ Hinv2 Hroks E3 E3r) as (-> & -> & Hinv3).
          exact (IHs Hr w3 H H2 Hinv3).
        * exact (IHs Hr w1 H H2 Hinv1).
      + (* left accepted, right rejected a call that tolerates no error: the right transaction fails *)
        rewrite Hx in H2. discriminate.
      + rewrite Hx in H. discriminate.
      + destruct Hx as [[Hl ->]|Hwe]; [|rewrite Hwe in H; discriminate].
        destruct (wants_error (sm_reply s)); [|discriminate]. cbv zeta in H, H2.
        rewrite set_fault_reW, handle_reply_reW in H2.
        destruct (handle_reply (set_fault w fl1) c (sm_id s)) as [[w2 rsubs]|er] eqn:Er; [|discriminate].
        destruct (process f w2 c rsubs) as [[w3|e3] fl3] eqn:E3; [|discriminate].
        destruct (process f (reW T st w2) c rsubs) as [[w3r|e3r] fl3r] eqn:E3r; [|discriminate].
        assert (Hrep : Forall ok_sub rsubs /\ fm_inv (w_fm w2)).
        { unfold handle_reply in Er. destruct (String.eqb c PM) eqn:Ec.
          - apply bind_ok in Er. destruct Er as [[s2 subs2] [Hr2 Er]]. inversion Er; subst w2 rsubs.
            apply pm_reply_spec in Hr2. destruct Hr2 as (_ & b & _ & _ & _ & _ & ->).
            split; [constructor; [right; split; [reflexivity | reflexivity] | constructor] | exact Hinv].
          - destruct (String.eqb c FM); [|discriminate].
            apply bind_ok in Er. destruct Er as [[s2 subs2] [Hr2 Er]]. inversion Er; subst w2 rsubs.
            apply fm_reply_spec in Hr2. destruct Hr2 as (-> & -> & _). split; [constructor | exact Hinv]. }
        destruct Hrep as [Hroks Hinv2].
        destruct (IHf _ _ _ _ _ _ _ Hinv2 Hroks E3 E3r) as (-> & -> & Hinv3).
        exact (IHs Hr w3 H H2 Hinv3).
  Qed.
End Frame.

(* C17, the frame, for whole transactions: a pool operation (swap, route, deposit of any shape incl. single-asset and
   locked ones, withdrawal) — or any transaction to another contract — that is accepted both before and after the switches
   of pool T were changed has exactly the same effect on the whole world (every balance, every contract state), up to
   the changed switches themselves *)
Theorem tx_frame T st w sender target m funds w' w2' :
  fm_inv (w_fm w) ->
  (match m with WPm pm => pool_op pm = true | _ => True end) ->
  run_tx w sender target m funds = Ok w' ->
  run_tx (reW T st w) sender target m funds = Ok w2' ->
  w2' = reW T st w'.
Proof.
  intros Hinv Hm H H2. unfold run_tx in *.
  destruct (process FUEL w sender [plain (MWasm target m funds)]) as [[w1|e1] fl1] eqn:E1; cbn [fst] in H; [|discriminate].
  destruct (process FUEL (reW T st w) sender [plain (MWasm target m funds)]) as [[w1r|e1r] fl1r] eqn:E1r; cbn [fst] in H2; [|discriminate].
  inversion H; inversion H2; subst.
  assert (Hok : Forall ok_sub [plain (MWasm target m funds)]).
  { constructor; [|constructor]. right. split; [reflexivity|]. unfold call_ok. cbn [plain sm_msg]. exact Hm. }
  destruct (process_frame T st FUEL _ _ _ _ _ _ _ Hinv Hok E1 E1r) as (-> & _ & _). reflexivity.
Qed.
