(* PmProofs.v — pool-manager handlers: what each may do to the pool table (C16 immutability, C17 switches,
   C02 LP accounting), for every message and sender. *)
From MD.Model Require Import Base Ownable Epoch PoolMath Types PoolManager.
From MD.Proofs Require Import Tactics Arith PoolMathProofs MapLemmas SwapProofs.

Definition same_static (p p' : pool_info) : Prop :=
  p_id p' = p_id p /\ p_denoms p' = p_denoms p /\ p_decimals p' = p_decimals p /\ p_type p' = p_type p /\
  p_lp p' = p_lp p /\ p_fees p' = p_fees p.

Definition pools_preserved (s s' : pm_state) : Prop :=
  forall id p, sfind p_id id (pm_pools s) = Some p ->
    exists p', sfind p_id id (pm_pools s') = Some p' /\ same_static p p'.

Lemma same_static_refl p : same_static p p.
Proof. repeat split. Qed.
Lemma pools_preserved_refl s : pools_preserved s s.
Proof. intros id p H. exists p. split; [exact H | apply same_static_refl]. Qed.
Lemma pools_preserved_trans a b c : pools_preserved a b -> pools_preserved b c -> pools_preserved a c.
Proof.
  intros H1 H2 id p Hp. destruct (H1 _ _ Hp) as (p1 & F1 & S1). destruct (H2 _ _ F1) as (p2 & F2 & S2).
  exists p2. split; [exact F2|]. unfold same_static in *. intuition congruence.
Qed.
Lemma pools_preserved_eq s s' : pm_pools s' = pm_pools s -> pools_preserved s s'.
Proof. intros E id p H. rewrite E. exists p. split; [exact H | apply same_static_refl]. Qed.

(* replacing a stored pool by a variant with the same static fields *)
Lemma pools_preserved_save s p p2 :
  sfind p_id (p_id p) (pm_pools s) = Some p -> same_static p p2 ->
  pools_preserved s (pm_save_pool s p2).
Proof.
  intros Hp Hs id q Hq. unfold pm_save_pool, pm_with_pools; cbn [pm_pools].
  assert (Hid : p_id p2 = p_id p) by (destruct Hs; assumption).
  destruct (String.eqb id (p_id p2)) eqn:E.
  - apply String.eqb_eq in E. subst id. rewrite (sfind_sinsert_same p_id p2). exists p2. split; [reflexivity|].
    rewrite Hid, Hp in Hq. inversion Hq; subst. exact Hs.
  - apply String.eqb_neq in E. rewrite (sfind_sinsert_other p_id id p2) by exact E.
    exists q. split; [exact Hq | apply same_static_refl].
Qed.

Lemma pool_find_id s id p : pool_find s id = Ok p -> sfind p_id (p_id p) (pm_pools s) = Some p.
Proof. intros H. apply pool_find_ok in H. rewrite (sfind_key _ _ _ _ H). exact H. Qed.

(* inserting a pool under a fresh identifier *)
Lemma pools_preserved_insert_fresh s p l :
  sfind p_id (p_id p) (pm_pools s) = None -> l = sinsert p_id p (pm_pools s) ->
  forall s', pm_pools s' = l -> pools_preserved s s'.
Proof.
  intros Hn -> s' E id q Hq. rewrite E.
  assert (id <> p_id p) by (intros C; subst; congruence).
  rewrite (sfind_sinsert_other p_id id p) by assumption. exists q. split; [exact Hq | apply same_static_refl].
Qed.

(* ---------- shapes of the handlers' results ---------- *)
Lemma provide_shape w sender funds ls ss r pid u l s' msgs :
  provide_liquidity w sender funds ls ss r pid u l = Ok (s', msgs) ->
  exists p, pool_find (w_pm w) pid = Ok p /\ deposits_enabled (p_status p) = true /\
    ((exists b, s' = pm_with_buffer (w_pm w) b) \/
     (exists a, s' = pm_save_pool (w_pm w) (pool_with_assets p a))).
Proof.
  unfold provide_liquidity. intros H.
  apply bind_ok in H. destruct H as [p [Hp H]].
  apply bind_ok in H. destruct H as [[] [He H]]. apply ensure_ok in He.
  exists p. split; [exact Hp|]. split; [exact He|].
  apply bind_ok in H. destruct H as [deps [Hd H]].
  apply bind_ok in H. destruct H as [[] [_ H]].
  apply bind_ok in H. destruct H as [[] [_ H]].
  destruct deps as [|d0 [|d1 rest]].
  - right. inv_all; eexists; reflexivity.
  - left. inv_all; eexists; reflexivity.
  - right. inv_all; eexists; reflexivity.
Qed.

Lemma withdraw_shape w sender funds pid s' msgs :
  withdraw_liquidity w sender funds pid = Ok (s', msgs) ->
  exists p a, pool_find (w_pm w) pid = Ok p /\ withdrawals_enabled (p_status p) = true /\
    s' = pm_save_pool (w_pm w) (pool_with_assets p a).
Proof.
  unfold withdraw_liquidity. intros H.
  apply bind_ok in H. destruct H as [p [Hp H]].
  apply bind_ok in H. destruct H as [[] [He H]]. apply ensure_ok in He.
  inv_all. eexists; eexists. repeat split; eauto.
Qed.

Lemma create_pool_shape w funds denoms decimals fees pt oid s' msgs :
  create_pool w funds denoms decimals fees pt oid = Ok (s', msgs) ->
  exists p,
    sfind p_id (p_id p) (pm_pools (w_pm w)) = None /\
    pm_pools s' = sinsert p_id p (pm_pools (w_pm w)) /\
    pm_cfg s' = pm_cfg (w_pm w) /\ pm_own s' = pm_own (w_pm w) /\ pm_buffer s' = pm_buffer (w_pm w) /\
    p_denoms p = denoms /\ p_decimals p = decimals /\ p_fees p = fees /\ p_type p = pt /\
    p_assets p = map (fun d => (d, 0)) denoms /\
    p_status p = {| swaps_enabled := true; deposits_enabled := true; withdrawals_enabled := true |} /\
    p_lp p = ("factory/" ++ PM ++ "/" ++ p_id p ++ ".LP")%string /\
    (match oid with
     | Some id => p_id p = ("o." ++ id)%string /\ pm_counter s' = pm_counter (w_pm w)
     | None => p_id p = ("p." ++ string_of_Z (pm_counter (w_pm w) + 1))%string /\ pm_counter s' = pm_counter (w_pm w) + 1
     end).
Proof.
  unfold create_pool. intros H.
  apply bind_ok in H. destruct H as [[] [H1 H]].
  apply bind_ok in H. destruct H as [[] [H2 H]].
  apply bind_ok in H. destruct H as [[] [H3 H]].
  apply bind_ok in H. destruct H as [tf [H4 H]].
  apply bind_ok in H. destruct H as [[] [H5 H]].
  apply bind_ok in H. destruct H as [[] [H6 H]].
  apply bind_ok in H. destruct H as [[] [H7 H]].
  apply bind_ok in H. destruct H as [[identifier counter'] [H8 H]].
  apply bind_ok in H. destruct H as [[] [H9 H]].
  apply bind_ok in H. destruct H as [[] [H10 H]].
  apply bind_ok in H. destruct H as [[] [H11 H]].
  inversion H; subst; clear H. apply ensure_ok in H10.
  eexists. cbn [pm_pools pm_cfg pm_own pm_buffer pm_counter p_id p_denoms p_decimals p_fees p_type p_assets p_status p_lp].
  split; [|split; [reflexivity|]].
  - cbn [p_id]. destruct (sfind p_id identifier (pm_pools (w_pm w))); [discriminate | reflexivity].
  - repeat split; try reflexivity.
    destruct oid as [id|].
    + inversion H8; subst. split; reflexivity.
    + apply bind_ok in H8. destruct H8 as [c [Hc H8]]. inversion H8; subst. unfold cadd in Hc.
      apply chk_ok in Hc. destruct Hc as [-> _]. split; reflexivity.
Qed.

Lemma update_config_shape w sender fc fm fee toggle s' msgs :
  pm_update_config w sender fc fm fee toggle = Ok (s', msgs) ->
  assert_owner (pm_own (w_pm w)) sender = Ok tt /\ msgs = [] /\
  pm_own s' = pm_own (w_pm w) /\ pm_counter s' = pm_counter (w_pm w) /\ pm_buffer s' = pm_buffer (w_pm w) /\
  match toggle with
  | None => pm_pools s' = pm_pools (w_pm w)
  | Some t => exists p, pool_find (w_pm w) (ft_pool t) = Ok p /\
      pm_pools s' = sinsert p_id (pool_with_status p
         {| swaps_enabled := match ft_swaps t with Some b => b | None => swaps_enabled (p_status p) end;
            deposits_enabled := match ft_deposits t with Some b => b | None => deposits_enabled (p_status p) end;
            withdrawals_enabled := match ft_withdrawals t with Some b => b | None => withdrawals_enabled (p_status p) end |})
         (pm_pools (w_pm w))
  end.
Proof.
  unfold pm_update_config. intros H.
  apply bind_ok in H. destruct H as [[] [Ho H]].
  apply bind_ok in H. destruct H as [fc' [_ H]].
  apply bind_ok in H. destruct H as [fm' [_ H]].
  apply bind_ok in H. destruct H as [pools' [Hp H]].
  inversion H; subst; clear H. cbn [pm_own pm_counter pm_buffer pm_pools].
  repeat split; auto.
  destruct toggle as [t|].
  - apply bind_ok in Hp. destruct Hp as [p [Hpf Hp]]. inversion Hp; subst. exists p. split; [exact Hpf | reflexivity].
  - inversion Hp; subst. reflexivity.
Qed.

(* ---------- C16: no handler ever changes a pool's static parameters or removes a pool ---------- *)
Lemma pm_execute_pools_preserved w sender funds m s' msgs :
  pm_execute w sender funds m = Ok (s', msgs) -> pools_preserved (w_pm w) s'.
Proof.
  destruct m as [denoms decimals fees pt oid | ls ss r pid u l | ask bp ms r pid | pid | a | ops mr r ms | fc fm fee t];
    cbn [pm_execute]; intros H.
  - apply create_pool_shape in H. destruct H as (p & Hfresh & Hpools & _).
    eapply pools_preserved_insert_fresh; eauto.
  - apply provide_shape in H. destruct H as (p & Hp & _ & [[b ->] | [a ->]]).
    + apply pools_preserved_eq. reflexivity.
    + eapply pools_preserved_save; [exact (pool_find_id _ _ _ Hp) | repeat split].
  - apply swap_spec in H. destruct H as (p & offer & sc & _ & _ & _ & _ & Hps & _).
    apply perform_swap_spec in Hps. destruct Hps as (p0 & oi & ai & oc & ac & od & ad & Hp & _ & _ & _ & _ & _ & ->).
    eapply pools_preserved_save; [exact (pool_find_id _ _ _ Hp) | repeat split].
  - apply withdraw_shape in H. destruct H as (p & a & Hp & _ & ->).
    eapply pools_preserved_save; [exact (pool_find_id _ _ _ Hp) | repeat split].
  - inv_all. apply pools_preserved_eq. reflexivity.
  - apply exec_ops_spec in H. destruct H as (lst & f & amount & out & fee_msgs & _ & _ & _ & _ & Hr & _).
    clear - Hr. revert Hr. generalize (w_pm w) as s. generalize (so_in f, amount) as prev. generalize (@nil submsg) as fm0.
    induction ops as [|o r0 IH]; intros fm0 prev s Hr.
    + cbn in Hr. inversion Hr; subst. apply pools_preserved_refl.
    + apply route_loop_cons in Hr. destruct Hr as (s1 & sc & Hps & Hr).
      eapply pools_preserved_trans; [|eapply IH; exact Hr].
      apply perform_swap_spec in Hps. destruct Hps as (p0 & oi & ai & oc & ac & od & ad & Hp & _ & _ & _ & _ & _ & ->).
      eapply pools_preserved_save; [exact (pool_find_id _ _ _ Hp) | repeat split].
  - apply bind_ok in H. destruct H as [[] [_ H]].
    apply update_config_shape in H. destruct H as (_ & _ & _ & _ & _ & Ht).
    destruct t as [t|].
    + destruct Ht as (p & Hp & Hpools). intros id q Hq. rewrite Hpools.
      set (p2 := pool_with_status p _).
      change (exists p', sfind p_id id (pm_pools (pm_save_pool (w_pm w) p2)) = Some p' /\ same_static q p').
      eapply (pools_preserved_save (w_pm w) p p2); [exact (pool_find_id _ _ _ Hp) | repeat split | exact Hq].
    + apply pools_preserved_eq. exact Ht.
Qed.

Lemma pm_reply_pools_preserved w id s' msgs :
  pm_reply w id = Ok (s', msgs) -> pools_preserved (w_pm w) s'.
Proof.
  unfold pm_reply. intros H. inv_all. apply pools_preserved_eq. reflexivity.
Qed.

(* ---------- create_pool: everything that is checked, and the messages it emits ---------- *)
Definition all_fees (f : pool_fee) : list Z := ([protocol_fee f; swap_fee f; burn_fee f] ++ extra_fees f)%list.

Lemma pool_fee_fold_spec l : forall acc t,
  foldM (fun acc s => let* _ := ensure (s <? PCT 100) "Invalid fee" in cadd U128_MAX acc s) l acc = Ok t ->
  Forall (fun s => s < PCT 100) l /\ t = acc + sumZ l.
Proof.
  induction l as [|x r IH]; intros acc t H; cbn [foldM sumZ] in *.
  - inversion H; subst. split; [constructor | lia].
  - apply bind_ok in H. destruct H as [b [Hb H]].
    apply bind_ok in Hb. destruct Hb as [[] [He Hb]]. apply ensure_ok in He.
    unfold cadd in Hb. apply chk_ok in Hb. destruct Hb as [-> _].
    destruct (IH _ _ H) as [F E]. split; [constructor; [lia | exact F] | lia].
Qed.

Lemma pool_fee_valid_spec f :
  pool_fee_valid f = Ok tt -> Forall (fun s => s < PCT 100) (all_fees f) /\ sumZ (all_fees f) <= PCT 20.
Proof.
  unfold pool_fee_valid. fold (all_fees f). intros H.
  apply bind_ok in H. destruct H as [t [Ht H]]. apply ensure_ok in H.
  apply pool_fee_fold_spec in Ht. destruct Ht as [F ->]. split; [exact F | lia].
Qed.

Lemma create_pool_checks w funds denoms decimals fees pt oid s' msgs :
  create_pool w funds denoms decimals fees pt oid = Ok (s', msgs) ->
  let n := Z.of_nat (List.length denoms) in
  2 <= n <= 4 /\ n = Z.of_nat (List.length decimals) /\
  match pt with ConstantProduct => n = 2 | StableSwap amp => amp <> 0 end /\
  has_dup denoms = false /\
  Forall (fun s => s < PCT 100) (all_fees fees) /\ sumZ (all_fees fees) <= PCT 20 /\
  (exists total_fees,
     validate_fees_are_paid (pm_creation_fee (pm_cfg (w_pm w))) (w_tf_fee w) funds = Ok total_fees /\
     validate_no_additional_funds funds total_fees = Ok tt) /\
  (exists p, sfind p_id (p_id p) (pm_pools s') = Some p /\ validate_pool_identifier (p_id p) = Ok tt /\
             sfind p_id (p_id p) (pm_pools (w_pm w)) = None) /\
  msgs = ((if amount_of (pm_creation_fee (pm_cfg (w_pm w))) =? 0 then []
           else [plain (MBankSend (pm_fee_collector (pm_cfg (w_pm w))) [pm_creation_fee (pm_cfg (w_pm w))])]) ++
          [plain (MTfCreateDenom (match oid with
                                  | Some id => "o." ++ id
                                  | None => "p." ++ string_of_Z (pm_counter (w_pm w) + 1) end ++ ".LP")%string)])%list.
Proof.
  unfold create_pool. intros H.
  apply bind_ok in H. destruct H as [[] [H1 H]]. apply ensure_ok in H1.
  apply bind_ok in H. destruct H as [[] [H2 H]].
  apply bind_ok in H. destruct H as [[] [H3 H]]. apply ensure_ok in H3.
  apply bind_ok in H. destruct H as [tf [H4 H]].
  apply bind_ok in H. destruct H as [[] [H5 H]].
  apply bind_ok in H. destruct H as [[] [H6 H]]. apply ensure_ok in H6.
  apply bind_ok in H. destruct H as [[] [H7 H]]. apply pool_fee_valid_spec in H7. destruct H7 as [H7a H7b].
  apply bind_ok in H. destruct H as [[identifier counter'] [H8 H]].
  apply bind_ok in H. destruct H as [[] [H9 H]].
  apply bind_ok in H. destruct H as [[] [H10 H]]. apply ensure_ok in H10.
  apply bind_ok in H. destruct H as [[] [H11 H]].
  inversion H; subst; clear H. cbv zeta.
  split; [lia|]. split; [lia|]. split.
  { destruct pt; apply ensure_ok in H2; lia. }
  split; [destruct (has_dup denoms); [discriminate | reflexivity]|].
  split; [exact H7a|]. split; [exact H7b|]. split; [eauto|]. split.
  { eexists. cbn [pm_pools p_id]. split; [apply (sfind_sinsert_same p_id)|]. cbn [p_id]. split; [exact H9|].
    destruct (sfind p_id identifier (pm_pools (w_pm w))); [discriminate | reflexivity]. }
  destruct oid as [id|].
  - inversion H8; subst. reflexivity.
  - apply bind_ok in H8. destruct H8 as [c [Hc H8]]. inversion H8; subst. unfold cadd in Hc.
    apply chk_ok in Hc. destruct Hc as [-> _]. reflexivity.
Qed.

(* ---------- locked deposits: the pool manager only ever locks for the depositor ---------- *)
Definition locks_only_for (w : world) (who : string) (m : submsg) : Prop :=
  match sm_msg m with
  | MWasm _ (WFm (FmPosCreate _ _ r)) _ => r = Some who
  | MWasm fm_addr (WFm (FmPosExpand pid)) _ => exists pos, q_position w fm_addr pid = Ok pos /\ pos_recv pos = who
  | MWasm _ (WFm _) _ => False
  | _ => True
  end.

Lemma provide_locks_only_for_sender w sender funds ls ss r pid u l s' msgs :
  sender <> PM ->
  provide_liquidity w sender funds ls ss r pid u l = Ok (s', msgs) ->
  Forall (locks_only_for w sender) msgs.
Proof.
  intros Hs. unfold provide_liquidity, mint_lp_msg. intros H.
  apply bind_ok in H. destruct H as [p [Hp H]].
  apply bind_ok in H. destruct H as [[] [He H]].
  apply bind_ok in H. destruct H as [deps [Hd H]].
  apply bind_ok in H. destruct H as [[] [Hne H]].
  apply bind_ok in H. destruct H as [[] [_ H]].
  assert (Hpm : String.eqb sender PM = false) by (apply String.eqb_neq; exact Hs).
  destruct deps as [|d0 [|d1 rest]].
  - cbn in Hne. discriminate.
  - inv_all; repeat constructor; unfold locks_only_for; cbn; auto.
  - apply bind_ok in H. destruct H as [ts [_ H]].
    apply bind_ok in H. destruct H as [[shares msgs0] [Hm0 H]].
    apply bind_ok in H. destruct H as [pa' [_ H]].
    apply bind_ok in H. destruct H as [msgs1 [Hm1 H]].
    apply bind_ok in H. destruct H as [assets'' [_ H]]. inversion H; subst s' msgs; clear H.
    apply Forall_app. split.
    + clear Hm1. destruct (p_type p); inv_all; repeat constructor; unfold locks_only_for; cbn; auto.
    + destruct u as [dur|].
      * apply bind_ok in Hm1. destruct Hm1 as [[] [Ha Hm1]]. apply ensure_ok in Ha.
        rewrite Hpm, orb_false_r in Ha. apply String.eqb_eq in Ha.
        apply bind_ok in Hm1. destruct Hm1 as [m [Hmint Hm1]].
        apply bind_ok in Hmint. destruct Hmint as [[] [_ Hmint]]. inversion Hmint; subst m; clear Hmint.
        destruct l as [lid|].
        -- destruct (q_position w (pm_farm_manager (pm_cfg (w_pm w))) lid) as [pos|e] eqn:Eq.
           ++ apply bind_ok in Hm1. destruct Hm1 as [[] [Hc Hm1]]. apply ensure_ok in Hc.
              apply andb_true_iff in Hc. destruct Hc as [_ Hc]. apply String.eqb_eq in Hc.
              inversion Hm1; subst. repeat constructor; unfold locks_only_for; cbn; auto.
              exists pos. split; [exact Eq | congruence].
           ++ inversion Hm1; subst. repeat constructor; unfold locks_only_for; cbn; auto. congruence.
        -- inversion Hm1; subst. repeat constructor; unfold locks_only_for; cbn; auto. congruence.
      * inv_all; repeat constructor; unfold locks_only_for; cbn; auto.
Qed.

(* ---------- single-asset deposits (C14) ---------- *)
Lemma provide_single_spec w sender funds ls ss r pid u l s' msgs deposit :
  aggregate_coins funds = Ok [deposit] ->
  provide_liquidity w sender funds ls ss r pid u l = Ok (s', msgs) ->
  exists p askc sim,
    pool_find (w_pm w) pid = Ok p /\ deposits_enabled (p_status p) = true /\
    (* refused on empty pools and on pools with more than two assets *)
    existsb (fun c => amount_of c =? 0) (p_assets p) = false /\ List.length (p_assets p) = 2%nat /\
    (* locking is only possible for the sender *)
    (u <> None -> addr_or_default w r sender = sender) /\
    find (fun c => negb (String.eqb (denom_of c) (denom_of deposit))) (p_assets p) = Some askc /\
    query_simulation (w_pm w) (denom_of deposit, amount_of deposit / 2) (denom_of askc) pid = Ok sim /\
    (* the only effect of this step: the buffer is set and ONE sub-message is emitted: swap floor(amount/2) to self *)
    s' = pm_with_buffer (w_pm w) (Some
           {| sb_receiver := addr_or_default w r sender;
              sb_expected_offer := (denom_of deposit, bal (w_bank w) PM (denom_of deposit));
              sb_expected_ask := (denom_of askc, ssub (bal (w_bank w) PM (denom_of askc)) (sc_protocol_fee sim + sc_burn_fee sim));
              sb_offer_half := (denom_of deposit, amount_of deposit / 2);
              sb_expected_ask_asset := (denom_of askc, sc_return sim);
              sb_data := {| ld_swap_slip := ss; ld_liq_slip := ls; ld_pool := pid; ld_unlock := u; ld_lock_id := l |} |}) /\
    msgs = [{| sm_msg := MWasm PM (WPm (PmSwap (denom_of askc) None ss None pid)) [(denom_of deposit, amount_of deposit / 2)];
               sm_id := 1; sm_reply := RSuccess |}].
Proof.
  intros Ha. unfold provide_liquidity. intros H.
  apply bind_ok in H. destruct H as [p [Hp H]].
  apply bind_ok in H. destruct H as [[] [He H]]. apply ensure_ok in He.
  rewrite Ha in H. cbn [bind] in H.
  apply bind_ok in H. destruct H as [[] [_ H]].
  apply bind_ok in H. destruct H as [[] [_ H]].
  apply bind_ok in H. destruct H as [[] [Hu H]].
  apply bind_ok in H. destruct H as [[] [Hz H]]. apply ensure_ok in Hz. apply negb_true_iff in Hz.
  apply bind_ok in H. destruct H as [[] [Hl H]]. apply ensure_ok in Hl. apply Nat.eqb_eq in Hl.
  apply bind_ok in H. destruct H as [askc [Hask H]]. apply of_option_ok in Hask.
  apply bind_ok in H. destruct H as [sim [Hsim H]].
  apply bind_ok in H. destruct H as [outgoing [Hout H]]. unfold cadd in Hout. apply chk_ok in Hout. destruct Hout as [-> _].
  apply bind_ok in H. destruct H as [[] [_ H]]. inversion H; subst s' msgs; clear H.
  exists p, askc, sim. repeat split; auto.
  intros Hun. destruct u as [d|]; [|congruence]. apply ensure_ok in Hu. apply String.eqb_eq in Hu. exact Hu.
Qed.

(* the reply: only after the swap SUCCEEDED, only when the pool manager's balances are exactly what the swap must
   have produced; it clears the buffer and deposits exactly the kept half plus the swap proceeds for the receiver *)
Lemma pm_reply_spec w id s' msgs :
  pm_reply w id = Ok (s', msgs) ->
  id = 1 /\ exists b, pm_buffer (w_pm w) = Some b /\
    bal (w_bank w) PM (denom_of (sb_expected_offer b)) = amount_of (sb_expected_offer b) /\
    bal (w_bank w) PM (denom_of (sb_expected_ask b)) = amount_of (sb_expected_ask b) /\
    s' = pm_with_buffer (w_pm w) None /\
    msgs = [plain (MWasm PM (WPm (PmProvide (ld_liq_slip (sb_data b)) (ld_swap_slip (sb_data b)) (Some (sb_receiver b))
                                              (ld_pool (sb_data b)) (ld_unlock (sb_data b)) (ld_lock_id (sb_data b))))
                         [sb_offer_half b; sb_expected_ask_asset b])].
Proof.
  unfold pm_reply. destruct (id =? 1) eqn:E; [|discriminate]. intros H.
  apply bind_ok in H. destruct H as [b [Hb H]]. apply of_option_ok in Hb.
  apply bind_ok in H. destruct H as [[] [H1 H]]. apply ensure_ok in H1.
  apply bind_ok in H. destruct H as [[] [H2 H]]. apply ensure_ok in H2. inversion H; subst.
  split; [lia|]. exists b. repeat split; auto; lia.
Qed.

(* no other pool-manager message touches the buffer *)
Lemma pm_execute_buffer_frame w sender funds m s' msgs :
  pm_execute w sender funds m = Ok (s', msgs) ->
  pm_buffer s' = pm_buffer (w_pm w) \/
  (exists ls ss r pid u l deposit, m = PmProvide ls ss r pid u l /\ aggregate_coins funds = Ok [deposit]).
Proof.
  destruct m as [denoms decimals fees pt oid | ls ss r pid u l | ask bp ms r pid | pid | a | ops mr r ms | fc fm fee t];
    cbn [pm_execute]; intros H.
  - apply create_pool_shape in H. destruct H as (p & _ & _ & _ & _ & Hb & _). left. exact Hb.
  - destruct (aggregate_coins funds) as [[|d0 [|d1 rest]]|e] eqn:Ea.
    + exfalso. unfold provide_liquidity in H.
      apply bind_ok in H. destruct H as [p [Hp H]].
      apply bind_ok in H. destruct H as [[] [He H]]. rewrite Ea in H. cbn in H. discriminate.
    + right. do 7 eexists. split; reflexivity.
    + left. unfold provide_liquidity in H.
      apply bind_ok in H. destruct H as [p [Hp H]].
      apply bind_ok in H. destruct H as [[] [He H]]. rewrite Ea in H. cbn [bind] in H.
      inv_all; reflexivity.
    + unfold provide_liquidity in H. apply bind_ok in H. destruct H as [p [Hp H]].
      apply bind_ok in H. destruct H as [[] [He H]]. rewrite Ea in H. discriminate.
  - left. apply SwapProofs.swap_spec in H. destruct H as (p & offer & sc & _ & _ & _ & _ & Hps & _).
    apply SwapProofs.perform_swap_spec in Hps. destruct Hps as (? & ? & ? & ? & ? & ? & ? & _ & _ & _ & _ & _ & _ & ->). reflexivity.
  - left. apply withdraw_shape in H. destruct H as (p & a & _ & _ & ->). reflexivity.
  - left. inv_all. reflexivity.
  - left. apply SwapProofs.exec_ops_spec in H. destruct H as (lst & f & amount & out & fee_msgs & _ & _ & _ & _ & Hr & _).
    clear - Hr. revert Hr. generalize (w_pm w) as s. generalize (so_in f, amount) as prev. generalize (@nil submsg) as fm0.
    induction ops as [|o r0 IH]; intros fm0 prev s Hr.
    + cbn in Hr. inversion Hr; subst. reflexivity.
    + apply SwapProofs.route_loop_cons in Hr. destruct Hr as (s1 & sc & Hps & Hr).
      rewrite (IH _ _ _ Hr).
      apply SwapProofs.perform_swap_spec in Hps. destruct Hps as (? & ? & ? & ? & ? & ? & ? & _ & _ & _ & _ & _ & _ & ->). reflexivity.
  - left. apply bind_ok in H. destruct H as [[] [_ H]]. apply update_config_shape in H. destruct H as (_ & _ & _ & _ & Hb & _). exact Hb.
Qed.
