(* C07 end to end for users staking one LP denom: claiming at u1 and then at u2 pays, coin denom by coin denom, exactly
   what a single claim at u2 pays. *)
From Coq Require Import ZArith List String Lia Bool.
From MD.Model Require Import Base Ownable Epoch PoolMath Types PoolManager FarmManager Chain.
From MD.Proofs Require Import Tactics Arith PoolMathProofs MapLemmas BankProofs WeightProofs FarmProofs RewardProofs FarmCustody ClaimFrame ClaimSplit.
Import ListNotations.
Open Scope Z_scope.

(* ---------- the list of per-farm totals a claim hands to the farm update ---------- *)
Definition mod_of (s : fm_state) (lp recv : string) (until : Z) (lc : option Z) (f : farm) : list (string * Z) :=
  match rw s lp recv until lc f with [] => [] | rs => [(f_id f, sum_snd rs)] end.

Lemma calc_fold_modified s lp recv until lc farms : forall c0 m0 c m,
  foldM (fun acc f =>
           if until <? f_start f then Ok acc else
           let* rs := farm_rewards s f lp recv until lc in
           let coins := map (fun er => (denom_of (f_asset f), snd er)) (filter (fun er => 0 <? snd er) rs) in
           let* total := foldM (fun t er => cadd U128_MAX t (snd er)) rs 0 in
           let modified' := match rs with [] => snd acc | _ => (snd acc ++ [(f_id f, total)])%list end in
           Ok ((fst acc ++ coins)%list, modified')) farms (c0, m0) = Ok (c, m) ->
  m = (m0 ++ flat_map (mod_of s lp recv until lc) farms)%list.
Proof.
  induction farms as [|f rest IH]; intros c0 m0 c m H; cbn [foldM flat_map] in *.
  - inversion H; subst. rewrite app_nil_r. reflexivity.
  - apply bind_ok in H. destruct H as [[c1 m1] [Hstep H]]. rewrite (IH _ _ _ _ H). unfold mod_of at 2, rw.
    destruct (until <? f_start f).
    + inversion Hstep; subst. reflexivity.
    + apply bind_ok in Hstep. destruct Hstep as [rs [Hrs Hstep]]. rewrite Hrs.
      apply bind_ok in Hstep. destruct Hstep as [total [Htot Hstep]]. cbn [fst snd] in Hstep. inversion Hstep; subst c1 m1; clear Hstep.
      apply total_fold_spec in Htot. cbn in Htot. subst total.
      destruct rs as [|er0 rs0]; [reflexivity|]. rewrite <- app_assoc. reflexivity.
Qed.

(* ---------- the farm update as a map over the farm table ---------- *)
Fixpoint assoc (k : string) (l : list (string * Z)) : option Z :=
  match l with [] => None | (k', v) :: r => if String.eqb k k' then Some v else assoc k r end.

Definition upd_by (modified : list (string * Z)) (g : farm) : farm :=
  match assoc (f_id g) modified with Some t => with_claimed g (f_claimed g + t) | None => g end.

Lemma map_no_match (v : farm) : forall r, ~ In (f_id v) (map f_id r) ->
  r = map (fun x => if String.eqb (f_id v) (f_id x) then v else x) r.
Proof.
  induction r as [|z t IHt]; intros H; cbn [map]; [reflexivity|].
  assert (String.eqb (f_id v) (f_id z) = false) as -> by (apply String.eqb_neq; intros C; apply H; left; congruence).
  f_equal. apply IHt. intros C. apply H. right. exact C.
Qed.

Lemma sreplace_map (v : farm) : forall l, NoDup (map f_id l) ->
  sreplace f_id v l = map (fun x => if String.eqb (f_id v) (f_id x) then v else x) l.
Proof.
  induction l as [|x r IH]; intros Hnd; cbn [sreplace map]; [reflexivity|].
  inversion Hnd as [|y ys Hx Hr]; subst. destruct (String.eqb (f_id v) (f_id x)) eqn:E.
  - f_equal. apply String.eqb_eq in E. apply map_no_match. rewrite E. exact Hx.
  - f_equal. apply IH. exact Hr.
Qed.

Lemma claim_upd_map : forall modified fs fs',
  NoDup (map f_id fs) -> NoDup (map fst modified) ->
  foldM claim_upd modified fs = Ok fs' -> fs' = map (upd_by modified) fs.
Proof.
  induction modified as [|[id t] rest IH]; intros fs fs' Hnd Hndm H; cbn [foldM] in H.
  - inversion H; subst. unfold upd_by. cbn [assoc]. rewrite map_id. reflexivity.
  - apply bind_ok in H. destruct H as [fs1 [H1 H]].
    inversion Hndm as [|x xs Hid Hrest]; subst. cbn [fst] in Hid.
    unfold claim_upd in H1. cbn [fst snd] in H1.
    apply bind_ok in H1. destruct H1 as [f [Hf H1]]. apply of_option_ok in Hf.
    apply bind_ok in H1. destruct H1 as [c [Hc H1]]. unfold cadd in Hc. apply chk_ok in Hc. destruct Hc as [-> _].
    apply bind_ok in H1. destruct H1 as [[] [_ H1]]. inversion H1; subst fs1; clear H1.
    pose proof (sfind_key _ _ _ _ Hf) as Hk.
    set (g' := {| f_id := f_id f; f_owner := f_owner f; f_lp := f_lp f; f_asset := f_asset f; f_claimed := f_claimed f + t;
                  f_rate := f_rate f; f_start := f_start f; f_end := f_end f |}) in *.
    assert (Hins : sinsert f_id g' fs = map (fun x => if String.eqb id (f_id x) then with_claimed x (f_claimed x + t) else x) fs).
    { unfold sinsert. cbn [f_id g']. rewrite Hk, Hf. rewrite (sreplace_map g' fs Hnd). cbn [f_id g']. rewrite Hk.
      apply map_ext_in. intros x Hx. destruct (String.eqb id (f_id x)) eqn:E; [|reflexivity].
      apply String.eqb_eq in E. pose proof (NoDup_in_sfind f_id x fs Hnd Hx) as Hx'. rewrite <- E, Hf in Hx'. inversion Hx'; subst x. reflexivity. }
    rewrite Hins in H.
    assert (Hnd1 : NoDup (map f_id (map (fun x => if String.eqb id (f_id x) then with_claimed x (f_claimed x + t) else x) fs))).
    { rewrite map_map. erewrite map_ext; [exact Hnd|]. intros x. cbv beta. destruct (String.eqb id (f_id x)); reflexivity. }
    rewrite (IH _ _ Hnd1 Hrest H), map_map. apply map_ext. intros x. unfold upd_by. cbn [assoc].
    destruct (String.eqb id (f_id x)) eqn:E.
    + apply String.eqb_eq in E. cbn [with_claimed f_id]. rewrite <- E, String.eqb_refl.
      assert (assoc id rest = None) as ->.
      { clear - Hid. induction rest as [|[k v] r IHr]; cbn [assoc]; [reflexivity|].
        destruct (String.eqb id k) eqn:Ek; [apply String.eqb_eq in Ek; subst; exfalso; apply Hid; left; reflexivity|].
        apply IHr. intros C. apply Hid. right. exact C. }
      reflexivity.
    + rewrite String.eqb_sym, E. reflexivity.
Qed.

Lemma with_claimed_same g : with_claimed g (f_claimed g + 0) = g.
Proof. destruct g. unfold with_claimed. cbn. f_equal. lia. Qed.

Lemma upd_by_lp m g : f_lp (upd_by m g) = f_lp g.
Proof. unfold upd_by. destruct (assoc (f_id g) m); reflexivity. Qed.

Lemma take_map {A B} (h : A -> B) n : forall l, take n (map h l) = map h (take n l).
Proof. induction n as [|n IH]; intros l; destruct l; cbn; try reflexivity. rewrite IH. reflexivity. Qed.

Lemma filter_map_lp m lp l :
  filter (fun f => String.eqb (f_lp f) lp) (map (upd_by m) l) = map (upd_by m) (filter (fun f => String.eqb (f_lp f) lp) l).
Proof.
  induction l as [|x r IH]; cbn [map filter]; [reflexivity|]. rewrite upd_by_lp.
  destruct (String.eqb (f_lp x) lp); cbn [map]; rewrite IH; reflexivity.
Qed.

Lemma assoc_flat_map_notin s lp recv until lc id : forall r,
  ~ In id (map f_id r) -> assoc id (flat_map (mod_of s lp recv until lc) r) = None.
Proof.
  induction r as [|z t IHt]; intros H; cbn [flat_map]; [reflexivity|].
  assert (Hz : String.eqb id (f_id z) = false) by (apply String.eqb_neq; intros C; apply H; left; congruence).
  unfold mod_of at 1. destruct (rw s lp recv until lc z); cbn [app assoc]; [|rewrite Hz]; apply IHt; intros C; apply H; right; exact C.
Qed.

Lemma assoc_flat_map s lp recv until lc g : forall farms,
  NoDup (map f_id farms) -> In g farms ->
  assoc (f_id g) (flat_map (mod_of s lp recv until lc) farms) =
  match rw s lp recv until lc g with [] => None | rs => Some (sum_snd rs) end.
Proof.
  induction farms as [|x r IH]; intros Hnd Hin; [destruct Hin|]. inversion Hnd as [|y ys Hx Hr]; subst. cbn [flat_map].
  destruct Hin as [->|Hin].
  - unfold mod_of at 1. destruct (rw s lp recv until lc g) as [|e0 t0] eqn:E.
    + cbn [app]. apply assoc_flat_map_notin. exact Hx.
    + cbn [app assoc]. rewrite String.eqb_refl. reflexivity.
  - assert (Hz : String.eqb (f_id g) (f_id x) = false).
    { apply String.eqb_neq. intros C. apply Hx. rewrite <- C. apply in_map. exact Hin. }
    unfold mod_of at 1. destruct (rw s lp recv until lc x); cbn [app assoc]; [|rewrite Hz]; apply IH; assumption.
Qed.

Lemma calculate_rewards_modified s lp recv until c agg m :
  calculate_rewards s lp recv until = Ok (agg, m) -> lc_get (fm_last_claimed s) recv = Some c -> until <> c ->
  m = flat_map (mod_of s lp recv until (Some c)) (farms_by_lp s lp (fm_max_farms (fm_cfg s))).
Proof.
  unfold calculate_rewards. intros H Hlc Hne. rewrite Hlc in H.
  apply bind_ok in H. destruct H as [[] [_ H]].
  replace (until =? c) with false in H by lia.
  apply bind_ok in H. destruct H as [[c1 m1] [Hf H]].
  apply bind_ok in H. destruct H as [agg' [_ H]]. inversion H; subst agg' m1; clear H.
  apply calc_fold_modified in Hf. exact Hf.
Qed.

Lemma flat_map_ids_sub s lp recv until lc : forall farms id,
  In id (map fst (flat_map (mod_of s lp recv until lc) farms)) -> In id (map f_id farms).
Proof.
  induction farms as [|x r IH]; intros id H; cbn [flat_map] in H; [exact H|].
  rewrite map_app in H. apply in_app_iff in H. destruct H as [H|H]; [|right; apply IH; exact H].
  unfold mod_of in H. destruct (rw s lp recv until lc x); [destruct H|]. cbn in H. destruct H as [<-|[]]. left. reflexivity.
Qed.

Lemma flat_map_ids_nodup s lp recv until lc : forall farms,
  NoDup (map f_id farms) -> NoDup (map fst (flat_map (mod_of s lp recv until lc) farms)).
Proof.
  induction farms as [|x r IH]; intros H; cbn [flat_map]; [constructor|].
  inversion H as [|y ys Hx Hr]; subst. rewrite map_app. apply NoDup_app_intro; [| apply IH; exact Hr |].
  - unfold mod_of. destruct (rw s lp recv until lc x); cbn; repeat constructor. intros [].
  - intros k Hk Hk2. apply flat_map_ids_sub in Hk2. unfold mod_of in Hk. destruct (rw s lp recv until lc x); [destruct Hk|].
    cbn in Hk. destruct Hk as [<-|[]]. exact (Hx Hk2).
Qed.

Lemma claim_upd_bounded : forall modified fs fs',
  foldM claim_upd modified fs = Ok fs' ->
  (forall f, In f fs -> f_claimed f <= amount_of (f_asset f)) ->
  forall f, In f fs' -> f_claimed f <= amount_of (f_asset f).
Proof.
  induction modified as [|m rest IH]; intros fs fs' H Hwf; cbn [foldM] in H; [inversion H; subst; exact Hwf|].
  apply bind_ok in H. destruct H as [fs1 [H1 H]]. apply (IH _ _ H).
  unfold claim_upd in H1.
  apply bind_ok in H1. destruct H1 as [f [_ H1]].
  apply bind_ok in H1. destruct H1 as [c [Hc H1]]. unfold cadd in Hc. apply chk_ok in Hc. destruct Hc as [-> _].
  apply bind_ok in H1. destruct H1 as [[] [Hle H1]]. apply ensure_ok in Hle. inversion H1; subst fs1; clear H1.
  intros g Hg. apply sinsert_in in Hg. destruct Hg as [->|Hg]; [cbn; lia | apply Hwf; exact Hg].
Qed.

(* ---------- a claim by a user staking one LP denom, with the state it leaves ---------- *)
Lemma claim_single_full w sender until s' msgs lp :
  unique_lp_denoms (positions_by_receiver (w_fm w) sender true) = [lp] ->
  claim w sender [] until = Ok (s', msgs) ->
  exists ep u rewards modified e0 x0 e1 w1,
    q_current_epoch w (fm_epoch_manager (fm_cfg (w_fm w))) = Ok ep /\
    until_epoch_or_current until (ep_id ep) = Ok u /\
    calculate_rewards (w_fm w) lp sender u = Ok (rewards, modified) /\
    foldM claim_upd modified (fm_farms (w_fm w)) = Ok (fm_farms s') /\
    w_earliest (fm_weights (w_fm w)) sender lp = Some (e0, x0) /\ w_latest (fm_weights (w_fm w)) sender lp = Some (e1, w1) /\
    fm_weights s' = synced (fm_weights (w_fm w)) sender lp e0 e1 u w1 /\
    fm_cfg s' = fm_cfg (w_fm w) /\ fm_positions s' = fm_positions (w_fm w) /\
    lc_get (fm_last_claimed s') sender = Some u /\
    forall d, out_amt msgs d = camt rewards d.
Proof.
  intros Hlp. unfold claim. cbn [nonpayable bind]. intros H.
  apply bind_ok in H. destruct H as [[] [_ H]].
  apply bind_ok in H. destruct H as [ep [Hep H]].
  apply bind_ok in H. destruct H as [u [Hu H]].
  rewrite Hlp in H. cbn [foldM] in H.
  apply bind_ok in H. destruct H as [[s1 total] [Hf H]].
  apply bind_ok in Hf. destruct Hf as [acc1 [Hstep Hf]]. inversion Hf; subst acc1; clear Hf.
  cbn [fst snd] in Hstep.
  apply bind_ok in Hstep. destruct Hstep as [[rewards modified] [Hcr Hstep]].
  apply bind_ok in Hstep. destruct Hstep as [farms' [Hupd Hstep]].
  apply bind_ok in Hstep. destruct Hstep as [s2 [Hs2 Hstep]]. inversion Hstep; subst s1 total; clear Hstep.
  apply bind_ok in H. destruct H as [ms [Hms H]]. inversion H; subst s' msgs; clear H.
  unfold sync_weight_history in Hs2. cbn [fm_set_farms fm_with fm_weights] in Hs2.
  destruct (w_earliest (fm_weights (w_fm w)) sender lp) as [[e0 x0]|] eqn:Ee; [|discriminate].
  destruct (w_latest (fm_weights (w_fm w)) sender lp) as [[e1 w1]|] eqn:El; [|discriminate].
  inversion Hs2; subst s2; clear Hs2.
  exists ep, u, rewards, modified, e0, x0, e1, w1.
  split; [exact Hep|]. split; [exact Hu|]. split; [exact Hcr|]. split; [exact Hupd|].
  split; [reflexivity|]. split; [reflexivity|]. split; [reflexivity|]. split; [reflexivity|]. split; [reflexivity|].
  split; [cbn [fm_set_last_claimed fm_with fm_last_claimed]; apply lc_get_set|].
  intros d. cbn [app] in Hms. destruct rewards as [|c0 r0]; [inversion Hms; reflexivity|].
  apply bind_ok in Hms. destruct Hms as [agg [Hagg Hms]]. inversion Hms; subst ms.
  cbn [out_amt]. unfold sent_amt, plain. cbn [sm_msg]. rewrite (aggregate_camt _ _ d Hagg). lia.
Qed.

(* ---------- the theorem ---------- *)
(* s: the farm manager's state; the user's cursor is at c. World wA (state s) is where he claims up to u1, leaving sA;
   world wB (state sA, any later block) is where he then claims up to u2; world wC (state s) is where he claims up to u2
   at once. All three succeed. Then, coin denom by coin denom, the single claim pays what the two claims pay together. *)
Theorem claim_twice_single_lp wA wB wC sender lp c u1 u2 sA sB sC msgs1 msgs2 msgsC e1 w1 e0c w0c :
  w_fm wC = w_fm wA -> w_fm wB = sA ->
  unique_lp_denoms (positions_by_receiver (w_fm wA) sender true) = [lp] ->
  lc_get (fm_last_claimed (w_fm wA)) sender = Some c -> c < u1 < u2 -> u1 < U64_MAX ->
  claim wA sender [] (Some u1) = Ok (sA, msgs1) ->
  claim wB sender [] (Some u2) = Ok (sB, msgs2) ->
  claim wC sender [] (Some u2) = Ok (sC, msgsC) ->
  NoDup (map f_id (fm_farms (w_fm wA))) ->
  (forall f, In f (fm_farms (w_fm wA)) -> 0 <= f_claimed f <= amount_of (f_asset f) /\ amount_of (f_asset f) <= U128_MAX) ->
  String.eqb FM sender = false ->
  w_latest (fm_weights (w_fm wA)) sender lp = Some (e1, w1) -> c <= e1 <= u1 + 1 ->
  w_earliest (fm_weights (w_fm wA)) FM lp = Some (e0c, w0c) -> e0c <= c + 1 ->
  forall d, out_amt msgsC d = out_amt msgs1 d + out_amt msgs2 d.
Proof.
  intros HsC HsB Hlp Hlc Hu Hu1 HA HB HC Hnd Hwf Hfm Hl Hle Hec Hec0 d.
  remember (w_fm wA) as s eqn:Hs.
  assert (HlpA : unique_lp_denoms (positions_by_receiver (w_fm wA) sender true) = [lp]) by (rewrite <- Hs; exact Hlp).
  destruct (claim_single_full _ _ _ _ _ _ HlpA HA) as (epA & uA & rew1 & mod1 & e0 & x0 & e1' & w1' & _ & HuA & Hcr1 & Hupd1 & He & Hl' & HwsA & HcfgA & HposA & HlcA & Hout1).
  cbn [until_epoch_or_current] in HuA. apply bind_ok in HuA. destruct HuA as [[] [_ HuA]]. inversion HuA; subst uA; clear HuA.
  rewrite <- Hs in *. rewrite Hl in Hl'. inversion Hl'; subst e1' w1'; clear Hl'.
  assert (HlpC : unique_lp_denoms (positions_by_receiver (w_fm wC) sender true) = [lp]) by (rewrite HsC; exact Hlp).
  destruct (claim_single_full _ _ _ _ _ _ HlpC HC) as (epC & uC & rewC & modC & _ & _ & _ & _ & _ & HuC & HcrC & HupdC & _ & _ & _ & _ & _ & _ & HoutC).
  cbn [until_epoch_or_current] in HuC. apply bind_ok in HuC. destruct HuC as [[] [_ HuC]]. inversion HuC; subst uC; clear HuC.
  rewrite HsC in HcrC, HupdC.
  assert (HlpB : unique_lp_denoms (positions_by_receiver (w_fm wB) sender true) = [lp]).
  { rewrite HsB. unfold positions_by_receiver. rewrite HposA. exact Hlp. }
  destruct (claim_single_full _ _ _ _ _ _ HlpB HB) as (epB & uB & rew2 & mod2 & _ & _ & _ & _ & _ & HuB & Hcr2 & _ & _ & _ & _ & _ & _ & _ & Hout2).
  cbn [until_epoch_or_current] in HuB. apply bind_ok in HuB. destruct HuB as [[] [_ HuB]]. inversion HuB; subst uB; clear HuB.
  rewrite HsB in Hcr2.
  rewrite HoutC, Hout1, Hout2.
  (* the farm table after the first claim *)
  remember (farms_by_lp s lp (fm_max_farms (fm_cfg s))) as farms eqn:Hfarms.
  destruct (farms_by_lp_sub s lp (fm_max_farms (fm_cfg s))) as [Hsub Hsubnd]. rewrite <- Hfarms in Hsub, Hsubnd.
  pose proof (Hsubnd Hnd) as Hfnd.
  pose proof (calculate_rewards_modified _ _ _ _ _ _ _ Hcr1 Hlc ltac:(lia)) as Hm1. rewrite <- Hfarms in Hm1.
  pose proof (calculate_rewards_modified _ _ _ _ _ _ _ HcrC Hlc ltac:(lia)) as HmC. rewrite <- Hfarms in HmC.
  assert (HfA : fm_farms sA = map (upd_by mod1) (fm_farms s)).
  { apply claim_upd_map; [exact Hnd | rewrite Hm1; apply flat_map_ids_nodup; exact Hfnd | exact Hupd1]. }
  assert (HfarmsA : farms_by_lp sA lp (fm_max_farms (fm_cfg s))
                    = map (fun f => with_claimed f (f_claimed f + sum_snd (rw s lp sender u1 (Some c) f))) farms).
  { unfold farms_by_lp. rewrite HfA, filter_map_lp, take_map. fold (farms_by_lp s lp (fm_max_farms (fm_cfg s))). rewrite <- Hfarms.
    apply map_ext_in. intros g Hg. unfold upd_by. rewrite Hm1, (assoc_flat_map _ _ _ _ _ g farms Hfnd Hg).
    destruct (rw s lp sender u1 (Some c) g); [cbn [sum_snd]; symmetry; apply with_claimed_same | reflexivity]. }
  (* the budget of the single claim *)
  assert (Hbud : forall f, In f farms -> 0 <= f_claimed f /\ f_claimed f + sum_snd (rw s lp sender u2 (Some c) f) <= amount_of (f_asset f) <= U128_MAX).
  { intros f Hf. destruct (Hwf f (Hsub f Hf)) as [[A B] C]. split; [exact A|]. split; [|exact C].
    assert (HfC : fm_farms sC = map (upd_by modC) (fm_farms s)).
    { apply claim_upd_map; [exact Hnd | rewrite HmC; apply flat_map_ids_nodup; exact Hfnd | exact HupdC]. }
    assert (Hb : forall g, In g (fm_farms sC) -> f_claimed g <= amount_of (f_asset g)).
    { apply (claim_upd_bounded _ _ _ HupdC). intros g Hg. destruct (Hwf g Hg) as [[_ B'] _]. exact B'. }
    specialize (Hb (upd_by modC f)). rewrite HfC in Hb. specialize (Hb (in_map _ _ _ (Hsub f Hf))).
    unfold upd_by in Hb. rewrite HmC, (assoc_flat_map _ _ _ _ _ f farms Hfnd Hf) in Hb.
    destruct (rw s lp sender u2 (Some c) f) as [|e0' t0]; [cbn [sum_snd]; lia | exact Hb]. }
  eapply (calculate_rewards_split s sA lp sender c u1 u2 rewC modC rew1 mod1 rew2 mod2 e0 x0 e1 w1 e0c w0c);
    try eassumption.
  - rewrite <- Hfarms. exact HfarmsA.
  - rewrite HwsA. apply wsame_refl.
  - rewrite <- Hfarms. exact Hbud.
Qed.

(* ====================================================================================================================
   Users staking several LP denoms: the claim walks over the denoms; each step is framed against the others.
   ==================================================================================================================== *)
Lemma latest_filter p a lp : forall l acc,
  (forall kv, p kv = false -> wkey_pref a lp (fst kv) = false) ->
  fold_left (lstep a lp) (filter p l) acc = fold_left (lstep a lp) l acc.
Proof.
  induction l as [|kv r IH]; intros acc H; cbn [filter fold_left]; [reflexivity|].
  destruct (p kv) eqn:E; cbn [fold_left]; [apply IH; exact H|].
  rewrite IH by exact H. replace (lstep a lp acc kv) with acc; [reflexivity|]. unfold lstep. rewrite (H kv E). reflexivity.
Qed.

Lemma latest_set_other k0 v a lp : wkey_pref a lp k0 = false -> forall l acc,
  fold_left (lstep a lp) (w_set l k0 v) acc = fold_left (lstep a lp) l acc.
Proof.
  intros Hp. induction l as [|[k' v'] r IH]; intros acc; cbn [w_set fold_left].
  - unfold lstep. cbn [fst]. rewrite Hp. reflexivity.
  - destruct (wkey_eqb k0 k') eqn:E; cbn [fold_left].
    + replace (lstep a lp acc (k', v)) with acc by (unfold lstep; cbn [fst]; rewrite (wkey_eqb_pref _ _ a lp E), Hp; reflexivity).
      replace (lstep a lp acc (k', v')) with acc by (unfold lstep; cbn [fst]; rewrite (wkey_eqb_pref _ _ a lp E), Hp; reflexivity). reflexivity.
    + apply IH.
Qed.

Lemma sync_latest_other s a lp u s2 lp' b :
  sync_weight_history s a lp u true = Ok s2 -> lp <> lp' -> w_latest (fm_weights s2) b lp' = w_latest (fm_weights s) b lp'.
Proof.
  unfold sync_weight_history. intros H Hne.
  destruct (w_earliest (fm_weights s) a lp) as [[e0 x0]|]; [|discriminate].
  destruct (w_latest (fm_weights s) a lp) as [[e1 w1]|]; [|discriminate].
  inversion H; subst s2; clear H. cbn [fm_weights fm_set_weights fm_with].
  assert (Hl : String.eqb lp lp' = false) by (apply String.eqb_neq; exact Hne).
  rewrite !w_latest_fold. rewrite latest_set_other.
  - apply latest_filter. intros kv Hk. apply negb_false_iff in Hk. apply andb_true_iff in Hk. destruct Hk as [Hk _].
    apply andb_true_iff in Hk. destruct Hk as [Hk _]. unfold wkey_pref in *. apply andb_true_iff in Hk. destruct Hk as [_ L].
    apply String.eqb_eq in L. rewrite L, Hl. apply andb_false_r.
  - unfold wkey_pref, mkw. cbn [wk_addr wk_lp]. rewrite Hl. apply andb_false_r.
Qed.

(* after the synchronisation the address's earliest entry for the denom is the one just written *)
Lemma earliest_no_pref a lp : forall l acc, (forall kv, In kv l -> wkey_pref a lp (fst kv) = false) -> fold_left (estep a lp) l acc = acc.
Proof.
  induction l as [|kv r IH]; intros acc H; cbn [fold_left]; [reflexivity|].
  rewrite IH by (intros x Hx; apply H; right; exact Hx). unfold estep. rewrite (H kv (or_introl eq_refl)). reflexivity.
Qed.

Lemma w_set_append k v : forall l, (forall kv, In kv l -> wkey_eqb k (fst kv) = false) -> w_set l k v = (l ++ [(k, v)])%list.
Proof.
  induction l as [|[k' v'] r IH]; intros H; cbn [w_set app]; [reflexivity|].
  pose proof (H (k', v') (or_introl eq_refl)) as H0. cbn [fst] in H0. rewrite H0. f_equal. apply IH. intros kv Hin. apply H. right. exact Hin.
Qed.

Lemma removed_no_pref ws a lp e0 x0 e1 w1 :
  w_earliest ws a lp = Some (e0, x0) -> w_latest ws a lp = Some (e1, w1) ->
  forall kv, In kv (w_remove_range ws a lp e0 e1) -> wkey_pref a lp (fst kv) = false.
Proof.
  intros He Hl kv Hin. unfold w_remove_range in Hin. apply filter_In in Hin. destruct Hin as [Hin Hp].
  destruct (wkey_pref a lp (fst kv)) eqn:E; [|reflexivity]. exfalso.
  rewrite w_earliest_fold in He. rewrite w_latest_fold in Hl.
  destruct (earliest_bound _ _ _ _ _ _ He) as [A _]. destruct (latest_bound _ _ _ _ _ _ Hl) as [B _].
  specialize (A kv Hin E). specialize (B kv Hin E).
  replace (e0 <=? wk_epoch (fst kv)) with true in Hp by lia. replace (wk_epoch (fst kv) <=? e1) with true in Hp by lia. discriminate.
Qed.

Lemma synced_earliest_self ws a lp e0 x0 e1 w1 u :
  w_earliest ws a lp = Some (e0, x0) -> w_latest ws a lp = Some (e1, w1) ->
  w_earliest (synced ws a lp e0 e1 u w1) a lp = Some (u, w1).
Proof.
  intros He Hl. pose proof (removed_no_pref _ _ _ _ _ _ _ He Hl) as Hno. unfold synced.
  rewrite w_set_append.
  - rewrite w_earliest_fold, fold_left_app, (earliest_no_pref a lp _ None Hno). cbn [fold_left]. unfold estep. cbn [fst snd].
    unfold wkey_pref, mkw. cbn [wk_addr wk_lp wk_epoch]. rewrite !String.eqb_refl. reflexivity.
  - intros kv Hin. destruct (wkey_eqb (mkw a lp u) (fst kv)) eqn:E; [|reflexivity].
    destruct (key_match_inv _ _ _ _ E) as [Hp _]. rewrite (Hno kv Hin) in Hp. discriminate.
Qed.

Lemma synced_wsame ws ws' a lp e0 x0 e1 w1 u :
  wsame lp ws ws' ->
  w_earliest ws a lp = Some (e0, x0) -> w_latest ws a lp = Some (e1, w1) -> w_latest ws' a lp = Some (e1, w1) ->
  wsame lp (synced ws a lp e0 e1 u w1) (synced ws' a lp e0 e1 u w1).
Proof.
  intros [G E] He Hl Hl'. assert (He' : w_earliest ws' a lp = Some (e0, x0)) by (rewrite E; exact He).
  split.
  - intros b e. destruct (String.eqb b a) eqn:Eb.
    + apply String.eqb_eq in Eb. subst b. rewrite (synced_get _ _ _ _ _ _ _ u e He Hl), (synced_get _ _ _ _ _ _ _ u e He' Hl'). reflexivity.
    + destruct (synced_other ws a lp e0 e1 u w1 b Eb) as [A _]. destruct (synced_other ws' a lp e0 e1 u w1 b Eb) as [A' _].
      rewrite A, A'. apply G.
  - intros b. destruct (String.eqb b a) eqn:Eb.
    + apply String.eqb_eq in Eb. subst b. rewrite (synced_earliest_self _ _ _ _ _ _ _ u He Hl), (synced_earliest_self _ _ _ _ _ _ _ u He' Hl'). reflexivity.
    + destruct (synced_other ws a lp e0 e1 u w1 b Eb) as [_ A]. destruct (synced_other ws' a lp e0 e1 u w1 b Eb) as [_ A'].
      rewrite A, A'. apply E.
Qed.

Definition modl (s0 : fm_state) (sender : string) (u c : Z) (lp : string) : list (string * Z) :=
  flat_map (mod_of s0 lp sender u (Some c)) (farms_by_lp s0 lp (fm_max_farms (fm_cfg s0))).

Definition todo_ok (s0 s : fm_state) (lp : string) : Prop :=
  lp_farms lp (fm_farms s) = lp_farms lp (fm_farms s0) /\ wsame lp (fm_weights s0) (fm_weights s) /\
  forall b, w_latest (fm_weights s) b lp = w_latest (fm_weights s0) b lp.

Definition done_ok (s0 s : fm_state) (sender : string) (u c : Z) (lp : string) : Prop :=
  lp_farms lp (fm_farms s) = map (upd_by (modl s0 sender u c lp)) (lp_farms lp (fm_farms s0)) /\
  exists e0 x0 e1 w1,
    w_earliest (fm_weights s0) sender lp = Some (e0, x0) /\ w_latest (fm_weights s0) sender lp = Some (e1, w1) /\
    wsame lp (synced (fm_weights s0) sender lp e0 e1 u w1) (fm_weights s).

Lemma upd_by_id m g : f_id (upd_by m g) = f_id g.
Proof. unfold upd_by. destruct (assoc (f_id g) m); reflexivity. Qed.

Lemma map_ids_upd m l : map f_id (map (upd_by m) l) = map f_id l.
Proof. rewrite map_map. apply map_ext. intros g. apply upd_by_id. Qed.

Lemma claim_loop_post s0 sender u c :
  lc_get (fm_last_claimed s0) sender = Some c -> u <> c ->
  forall lps done s acc s1 total,
  NoDup lps -> (forall lp, In lp lps -> ~ In lp done) ->
  NoDup (map f_id (fm_farms s)) -> fm_cfg s = fm_cfg s0 -> fm_last_claimed s = fm_last_claimed s0 -> fm_positions s = fm_positions s0 ->
  (forall lp, In lp lps -> todo_ok s0 s lp) -> (forall lp, In lp done -> done_ok s0 s sender u c lp) ->
  (forall f, In f (fm_farms s) -> f_claimed f <= amount_of (f_asset f)) ->
  foldM (claim_step sender u) lps (s, acc) = Ok (s1, total) ->
  fm_cfg s1 = fm_cfg s0 /\ fm_last_claimed s1 = fm_last_claimed s0 /\ fm_positions s1 = fm_positions s0 /\
  NoDup (map f_id (fm_farms s1)) /\ (forall lp, In lp (done ++ lps) -> done_ok s0 s1 sender u c lp) /\
  (forall f, In f (fm_farms s1) -> f_claimed f <= amount_of (f_asset f)).
Proof.
  intros Hlc Hne. induction lps as [|lp rest IH]; intros done s acc s1 total Hnd Hdis Hids Hc Hl Hp Htodo Hdone Hbd H; cbn [foldM] in H.
  - inversion H; subst. rewrite app_nil_r. split; [exact Hc|]. split; [exact Hl|]. split; [exact Hp|]. split; [exact Hids|]. split; [exact Hdone | exact Hbd].
  - apply bind_ok in H. destruct H as [[s2 acc2] [Hstep H]].
    unfold claim_step in Hstep. cbn [fst snd] in Hstep.
    apply bind_ok in Hstep. destruct Hstep as [[rewards modified] [Hcr Hstep]].
    apply bind_ok in Hstep. destruct Hstep as [farms' [Hupd Hstep]].
    apply bind_ok in Hstep. destruct Hstep as [s2' [Hsync Hstep]]. inversion Hstep; subst s2' acc2; clear Hstep.
    inversion Hnd as [|x xs Hnotin Hnd']; subst.
    destruct (Htodo lp (or_introl eq_refl)) as (Hfa & Hw & Hlat).
    (* the rewards and the per-farm totals are those of the state before the claim *)
    assert (Hcr0 : calculate_rewards s0 lp sender u = Ok (rewards, modified)).
    { rewrite <- (calculate_rewards_same s0 s lp sender u Hc Hl Hfa Hw). exact Hcr. }
    pose proof (calculate_rewards_modified _ _ _ _ _ _ _ Hcr0 Hlc Hne) as Hm. fold (modl s0 sender u c lp) in Hm.
    assert (Hall : Forall (has_lp_farm lp (fm_farms s)) modified) by (eapply calculate_rewards_modified_ids; exact Hcr).
    destruct (claim_upd_fold lp modified (fm_farms s) farms' Hids Hall Hupd) as (Hother & Hids' & _).
    assert (Hndm : NoDup (map fst modified)).
    { rewrite Hm. unfold modl. apply flat_map_ids_nodup. unfold farms_by_lp. fold (lp_farms lp (fm_farms s0)). rewrite <- Hfa.
      apply NoDup_map_take. apply NoDup_map_filter. exact Hids. }
    pose proof (claim_upd_map _ _ _ Hids Hndm Hupd) as Hfarms'.
    destruct (sync_fields _ _ _ _ _ Hsync) as (Hf2 & Hc2 & Hl2 & Hp2).
    cbn [fm_farms fm_cfg fm_last_claimed fm_positions fm_set_farms fm_with] in Hf2, Hc2, Hl2, Hp2.
    (* the synchronised table *)
    pose proof Hsync as Hsy. unfold sync_weight_history in Hsy. cbn [fm_set_farms fm_with fm_weights] in Hsy.
    destruct (w_earliest (fm_weights s) sender lp) as [[e0 x0]|] eqn:Ee; [|discriminate].
    destruct (w_latest (fm_weights s) sender lp) as [[e1 w1]|] eqn:El; [|discriminate].
    inversion Hsy as [Hs2]. clear Hsy.
    assert (Hw2 : fm_weights s2 = synced (fm_weights s) sender lp e0 e1 u w1) by (rewrite <- Hs2; reflexivity).
    destruct Hw as [G E]. pose proof Ee as Ee0. rewrite E in Ee0. pose proof El as El0. rewrite Hlat in El0.
    apply (IH (done ++ [lp])%list s2 (acc ++ rewards)%list s1 total Hnd') in H.
    + destruct H as (A & B & C & D & F & K). split; [exact A|]. split; [exact B|]. split; [exact C|]. split; [exact D|]. split; [|exact K].
      intros lp' Hin. apply F. rewrite <- app_assoc. exact Hin.
    + intros lp' Hin Hd. apply in_app_iff in Hd. destruct Hd as [Hd|[<-|[]]]; [apply (Hdis lp' (or_intror Hin)); exact Hd | contradiction].
    + rewrite Hf2, Hfarms', map_ids_upd. exact Hids.
    + rewrite Hc2. exact Hc.
    + rewrite Hl2. exact Hl.
    + rewrite Hp2. exact Hp.
    + intros lp' Hin'. assert (Hne' : lp <> lp') by (intros C; subst; contradiction).
      destruct (Htodo lp' (or_intror Hin')) as (Hfa' & Hw' & Hlat').
      split; [rewrite Hf2, (Hother lp' Hne'); exact Hfa'|]. split.
      * eapply wsame_trans; [exact Hw'|]. exact (sync_wsame _ _ _ _ _ lp' Hsync Hne').
      * intros b. rewrite (sync_latest_other _ _ _ _ _ lp' b Hsync Hne'). cbn [fm_set_farms fm_with fm_weights]. apply Hlat'.
    + intros lp' Hin'. apply in_app_iff in Hin'. destruct Hin' as [Hin'|[<-|[]]].
      * assert (Hne' : lp <> lp') by (intros C; subst; apply (Hdis lp' (or_introl eq_refl)); exact Hin').
        destruct (Hdone lp' Hin') as (Hfd & e0' & x0' & e1' & w1' & He' & Hl' & Hwd).
        split; [rewrite Hf2, (Hother lp' Hne'); exact Hfd|].
        exists e0', x0', e1', w1'. split; [exact He'|]. split; [exact Hl'|].
        eapply wsame_trans; [exact Hwd|]. exact (sync_wsame _ _ _ _ _ lp' Hsync Hne').
      * split.
        { rewrite Hf2, Hfarms'. unfold lp_farms. rewrite filter_map_lp. fold (lp_farms lp (fm_farms s)). rewrite Hfa, Hm. reflexivity. }
        exists e0, x0, e1, w1. split; [exact Ee0|]. split; [exact El0|].
        rewrite Hw2. apply (synced_wsame _ _ _ _ _ x0 _ _ _ (conj G E) Ee0 El0 El).
    + rewrite Hf2. apply (claim_upd_bounded _ _ _ Hupd Hbd).
Qed.

Definition aggr (s : fm_state) (lp sender : string) (u : Z) : list coin :=
  match calculate_rewards s lp sender u with Ok (r, _) => r | Err _ => [] end.

Lemma query_fold_sum s sender u : forall lps acc total,
  foldM (query_step s sender u) lps acc = Ok total ->
  (forall d, camt total d = camt acc d + ssum (fun lp => camt (aggr s lp sender u) d) lps) /\
  (forall lp, In lp lps -> exists r m, calculate_rewards s lp sender u = Ok (r, m)).
Proof.
  induction lps as [|lp rest IH]; intros acc total H; cbn [foldM] in H.
  - inversion H; subst. split; [intros d; cbn; lia | intros lp []].
  - apply bind_ok in H. destruct H as [acc1 [Hq H]]. unfold query_step in Hq.
    apply bind_ok in Hq. destruct Hq as [[r m] [Hcr Hq]]. inversion Hq; subst acc1; clear Hq.
    destruct (IH _ _ H) as [A B]. split.
    + intros d. rewrite A, camt_app. cbn [ssum]. unfold aggr at 2. rewrite Hcr. lia.
    + intros lp' [<-|Hin]; [exists r, m; exact Hcr | apply B; exact Hin].
Qed.

(* a claim, decomposed: the walk over the LP denoms, the cursor, the payout *)
Lemma claim_full w sender until s' msgs :
  claim w sender [] until = Ok (s', msgs) ->
  exists ep u s1 total,
    q_current_epoch w (fm_epoch_manager (fm_cfg (w_fm w))) = Ok ep /\
    until_epoch_or_current until (ep_id ep) = Ok u /\
    foldM (claim_step sender u) (unique_lp_denoms (positions_by_receiver (w_fm w) sender true)) (w_fm w, []) = Ok (s1, total) /\
    s' = fm_set_last_claimed s1 (lc_set (fm_last_claimed s1) sender u) /\
    forall d, out_amt msgs d = camt total d.
Proof.
  unfold claim. cbn [nonpayable bind]. intros H.
  apply bind_ok in H. destruct H as [[] [_ H]].
  apply bind_ok in H. destruct H as [ep [Hep H]].
  apply bind_ok in H. destruct H as [u [Hu H]].
  apply bind_ok in H. destruct H as [[s1 total] [Hf H]].
  apply bind_ok in H. destruct H as [ms [Hms H]]. inversion H; subst s' msgs; clear H.
  exists ep, u, s1, total. split; [exact Hep|]. split; [exact Hu|]. split; [exact Hf|]. split; [reflexivity|].
  intros d. destruct total as [|c0 r0]; [inversion Hms; reflexivity|].
  apply bind_ok in Hms. destruct Hms as [agg [Hagg Hms]]. inversion Hms; subst ms.
  cbn [out_amt]. unfold sent_amt, plain. cbn [sm_msg]. rewrite (aggregate_camt _ _ d Hagg). lia.
Qed.

Lemma todo_refl s lp : todo_ok s s lp.
Proof. split; [reflexivity|]. split; [apply wsame_refl | reflexivity]. Qed.

(* ---------- the theorem for any number of LP denoms ---------- *)
Theorem claim_twice wA wB wC sender c u1 u2 sA sB sC msgs1 msgs2 msgsC :
  w_fm wC = w_fm wA -> w_fm wB = sA ->
  lc_get (fm_last_claimed (w_fm wA)) sender = Some c -> c < u1 < u2 -> u1 < U64_MAX ->
  claim wA sender [] (Some u1) = Ok (sA, msgs1) ->
  claim wB sender [] (Some u2) = Ok (sB, msgs2) ->
  claim wC sender [] (Some u2) = Ok (sC, msgsC) ->
  NoDup (map f_id (fm_farms (w_fm wA))) ->
  (forall f, In f (fm_farms (w_fm wA)) -> 0 <= f_claimed f <= amount_of (f_asset f) /\ amount_of (f_asset f) <= U128_MAX) ->
  String.eqb FM sender = false ->
  (forall lp, In lp (unique_lp_denoms (positions_by_receiver (w_fm wA) sender true)) ->
     exists e1 w1 e0c w0c,
       w_latest (fm_weights (w_fm wA)) sender lp = Some (e1, w1) /\ c <= e1 <= u1 + 1 /\
       w_earliest (fm_weights (w_fm wA)) FM lp = Some (e0c, w0c) /\ e0c <= c + 1) ->
  forall d, out_amt msgsC d = out_amt msgs1 d + out_amt msgs2 d.
Proof.
  intros HsC HsB Hlc Hu Hu1 HA HB HC Hnd Hwf Hfm Hlps d.
  remember (w_fm wA) as s eqn:Hs.
  remember (unique_lp_denoms (positions_by_receiver s sender true)) as lps eqn:Hlpsdef.
  assert (Hbd0 : forall f, In f (fm_farms s) -> f_claimed f <= amount_of (f_asset f)) by (intros f Hf; destruct (Hwf f Hf) as [[_ B] _]; exact B).
  assert (Hndl : NoDup lps) by (rewrite Hlpsdef; apply dedup_NoDup).
  (* the first claim *)
  destruct (claim_full _ _ _ _ _ HA) as (epA & uA & s1A & totA & _ & HuA & HfA & HsA & Hout1).
  cbn [until_epoch_or_current] in HuA. apply bind_ok in HuA. destruct HuA as [[] [_ HuA]]. inversion HuA; subst uA; clear HuA.
  rewrite <- Hs, <- Hlpsdef in HfA.
  assert (HqA : foldM (query_step s sender u1) lps [] = Ok totA).
  { eapply claim_walk; [exact Hndl | exact Hnd | | exact HfA].
    split; [reflexivity|]. split; [reflexivity|]. intros lp' _. split; [reflexivity | apply wsame_refl]. }
  destruct (claim_loop_post s sender u1 c Hlc ltac:(lia) lps [] s [] s1A totA Hndl (fun _ _ C => C) Hnd eq_refl eq_refl eq_refl
              (fun lp _ => todo_refl s lp) (fun lp C => match C with end) Hbd0 HfA) as (HcA & HlA & HpA & HndA & HdoneA & _).
  cbn [app] in HdoneA.
  (* the single claim *)
  destruct (claim_full _ _ _ _ _ HC) as (epC & uC & s1C & totC & _ & HuC & HfC & _ & HoutC).
  cbn [until_epoch_or_current] in HuC. apply bind_ok in HuC. destruct HuC as [[] [_ HuC]]. inversion HuC; subst uC; clear HuC.
  rewrite HsC, <- Hlpsdef in HfC.
  assert (HqC : foldM (query_step s sender u2) lps [] = Ok totC).
  { eapply claim_walk; [exact Hndl | exact Hnd | | exact HfC].
    split; [reflexivity|]. split; [reflexivity|]. intros lp' _. split; [reflexivity | apply wsame_refl]. }
  destruct (claim_loop_post s sender u2 c Hlc ltac:(lia) lps [] s [] s1C totC Hndl (fun _ _ C => C) Hnd eq_refl eq_refl eq_refl
              (fun lp _ => todo_refl s lp) (fun lp C => match C with end) Hbd0 HfC) as (_ & _ & _ & _ & HdoneC & HbdC).
  cbn [app] in HdoneC.
  (* the second claim, on the state the first one left *)
  destruct (claim_full _ _ _ _ _ HB) as (epB & uB & s1B & totB & _ & HuB & HfB & _ & Hout2).
  cbn [until_epoch_or_current] in HuB. apply bind_ok in HuB. destruct HuB as [[] [_ HuB]]. inversion HuB; subst uB; clear HuB.
  rewrite HsB in HfB.
  assert (HposA : fm_positions sA = fm_positions s) by (rewrite HsA; cbn [fm_set_last_claimed fm_with fm_positions]; exact HpA).
  assert (HfarmsA : fm_farms sA = fm_farms s1A) by (rewrite HsA; reflexivity).
  assert (HwA : fm_weights sA = fm_weights s1A) by (rewrite HsA; reflexivity).
  assert (HcfgA : fm_cfg sA = fm_cfg s) by (rewrite HsA; cbn [fm_set_last_claimed fm_with fm_cfg]; exact HcA).
  assert (HlcA : lc_get (fm_last_claimed sA) sender = Some u1) by (rewrite HsA; cbn [fm_set_last_claimed fm_with fm_last_claimed]; apply lc_get_set).
  assert (HlpsB : unique_lp_denoms (positions_by_receiver sA sender true) = lps).
  { unfold positions_by_receiver. rewrite HposA. rewrite Hlpsdef. reflexivity. }
  rewrite HlpsB in HfB.
  assert (HqB : foldM (query_step sA sender u2) lps [] = Ok totB).
  { eapply claim_walk; [exact Hndl | rewrite HfarmsA; exact HndA | | exact HfB].
    split; [reflexivity|]. split; [reflexivity|]. intros lp' _. split; [reflexivity | apply wsame_refl]. }
  destruct (query_fold_sum _ _ _ _ _ _ HqA) as [SA OkA]. destruct (query_fold_sum _ _ _ _ _ _ HqB) as [SB OkB].
  destruct (query_fold_sum _ _ _ _ _ _ HqC) as [SC OkC].
  rewrite HoutC, Hout1, Hout2, SA, SB, SC. cbn [camt]. rewrite !Z.add_0_l. rewrite <- ssum_plus.
  apply ssum_ext_in. intros lp Hlp.
  destruct (OkA lp Hlp) as (r1 & m1 & Hcr1). destruct (OkB lp Hlp) as (r2 & m2 & Hcr2). destruct (OkC lp Hlp) as (rC & mC & HcrC).
  unfold aggr. rewrite Hcr1, Hcr2, HcrC.
  destruct (Hlps lp Hlp) as (e1 & w1 & e0c & w0c & Hl & Hle & Hec & Hec0).
  destruct (HdoneA lp Hlp) as (HfaA & e0 & x0 & e1' & w1' & He & Hl' & HwsA).
  rewrite Hl in Hl'. inversion Hl'; subst e1' w1'; clear Hl'.
  destruct (HdoneC lp Hlp) as (HfaC & _).
  remember (farms_by_lp s lp (fm_max_farms (fm_cfg s))) as farms eqn:Hfarms.
  destruct (farms_by_lp_sub s lp (fm_max_farms (fm_cfg s))) as [Hsub Hsubnd]. rewrite <- Hfarms in Hsub, Hsubnd.
  pose proof (Hsubnd Hnd) as Hfnd.
  assert (HfarmsA' : farms_by_lp sA lp (fm_max_farms (fm_cfg s))
                     = map (fun f => with_claimed f (f_claimed f + sum_snd (rw s lp sender u1 (Some c) f))) farms).
  { unfold farms_by_lp. fold (lp_farms lp (fm_farms sA)). rewrite HfarmsA, HfaA, take_map.
    change (take (Z.to_nat (Z.min (fm_max_farms (fm_cfg s)) MAX_FARMS_LIMIT)) (lp_farms lp (fm_farms s))) with (farms_by_lp s lp (fm_max_farms (fm_cfg s))).
    rewrite <- Hfarms.
    apply map_ext_in. intros g Hg. unfold upd_by, modl. rewrite <- Hfarms, (assoc_flat_map _ _ _ _ _ g farms Hfnd Hg).
    destruct (rw s lp sender u1 (Some c) g); [cbn [sum_snd]; symmetry; apply with_claimed_same | reflexivity]. }
  assert (Hbud : forall f, In f farms -> 0 <= f_claimed f /\ f_claimed f + sum_snd (rw s lp sender u2 (Some c) f) <= amount_of (f_asset f) <= U128_MAX).
  { intros f Hf. destruct (Hwf f (Hsub f Hf)) as [[A B] C]. split; [exact A|]. split; [|exact C].
    assert (Hin1 : In (upd_by (modl s sender u2 c lp) f) (fm_farms s1C)).
    { assert (Hin2 : In (upd_by (modl s sender u2 c lp) f) (lp_farms lp (fm_farms s1C))).
      { rewrite HfaC. apply in_map. rewrite Hfarms in Hf. unfold farms_by_lp in Hf. apply in_take in Hf. exact Hf. }
      unfold lp_farms in Hin2. apply filter_In in Hin2. tauto. }
    specialize (HbdC _ Hin1). unfold upd_by, modl in HbdC. rewrite <- Hfarms, (assoc_flat_map _ _ _ _ _ f farms Hfnd Hf) in HbdC.
    destruct (rw s lp sender u2 (Some c) f) as [|e0' t0]; [cbn [sum_snd]; lia | exact HbdC]. }
  eapply (calculate_rewards_split s sA lp sender c u1 u2 rC mC r1 m1 r2 m2 e0 x0 e1 w1 e0c w0c); try eassumption.
  - rewrite <- Hfarms. exact HfarmsA'.
  - rewrite HwA. exact HwsA.
  - rewrite <- Hfarms. exact Hbud.
Qed.
