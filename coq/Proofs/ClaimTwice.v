(* C07 end to end for users staking one LP denom: claiming at u1 and then at u2 pays, coin denom by coin denom, exactly
   what a single claim at u2 pays. *)
From Coq Require Import ZArith List String Lia Bool.
From MD.Model Require Import Base Ownable Epoch PoolMath Types PoolManager FarmManager Chain.
From MD.Proofs Require Import Tactics Arith PoolMathProofs MapLemmas BankProofs WeightProofs FarmProofs RewardProofs FarmCustody ClaimFrame ClaimSplit.
Import ListNotations.
Open Scope Z_scope.

(* ---------- the list of per-farm totals a claim hands to the farm update ---------- *)
Definition mod_of (s : fm_state) (lp recv : string) (until : Z) (lc : option Z) (f : farm) : list (string * Z) :=
  match rw s lp recv until lc f with [] => [] | rs => [(f_id f, sum_snd rs)] end.

Lemma calc_fold_modified s lp recv until lc farms : forall c0 m0 c m,
  foldM (fun acc f =>
           if until <? f_start f then Ok acc else
           let* rs := farm_rewards s f lp recv until lc in
           let coins := map (fun er => (denom_of (f_asset f), snd er)) (filter (fun er => 0 <? snd er) rs) in
           let* total := foldM (fun t er => cadd U128_MAX t (snd er)) rs 0 in
           let modified' := match rs with [] => snd acc | _ => (snd acc ++ [(f_id f, total)])%list end in
           Ok ((fst acc ++ coins)%list, modified')) farms (c0, m0) = Ok (c, m) ->
  m = (m0 ++ flat_map (mod_of s lp recv until lc) farms)%list.
Proof.
  induction farms as [|f rest IH]; intros c0 m0 c m H; cbn [foldM flat_map] in *.
  - inversion H; subst. rewrite app_nil_r. reflexivity.
  - apply bind_ok in H. destruct H as [[c1 m1] [Hstep H]]. rewrite (IH _ _ _ _ H). unfold mod_of at 2, rw.
    destruct (until <? f_start f).
    + inversion Hstep; subst. reflexivity.
    + apply bind_ok in Hstep. destruct Hstep as [rs [Hrs Hstep]]. rewrite Hrs.
      apply bind_ok in Hstep. destruct Hstep as [total [Htot Hstep]]. cbn [fst snd] in Hstep. inversion Hstep; subst c1 m1; clear Hstep.
      apply total_fold_spec in Htot. cbn in Htot. subst total.
      destruct rs as [|er0 rs0]; [reflexivity|]. rewrite <- app_assoc. reflexivity.
Qed.

(* ---------- the farm update as a map over the farm table ---------- *)
Fixpoint assoc (k : string) (l : list (string * Z)) : option Z :=
  match l with [] => None | (k', v) :: r => if String.eqb k k' then Some v else assoc k r end.

Definition upd_by (modified : list (string * Z)) (g : farm) : farm :=
  match assoc (f_id g) modified with Some t => with_claimed g (f_claimed g + t) | None => g end.

Lemma map_no_match (v : farm) : forall r, ~ In (f_id v) (map f_id r) ->
  r = map (fun x => if String.eqb (f_id v) (f_id x) then v else x) r.
Proof.
  induction r as [|z t IHt]; intros H; cbn [map]; [reflexivity|].
  assert (String.eqb (f_id v) (f_id z) = false) as -> by (apply String.eqb_neq; intros C; apply H; left; congruence).
  f_equal. apply IHt. intros C. apply H. right. exact C.
Qed.

Lemma sreplace_map (v : farm) : forall l, NoDup (map f_id l) ->
  sreplace f_id v l = map (fun x => if String.eqb (f_id v) (f_id x) then v else x) l.
Proof.
  induction l as [|x r IH]; intros Hnd; cbn [sreplace map]; [reflexivity|].
  inversion Hnd as [|y ys Hx Hr]; subst. destruct (String.eqb (f_id v) (f_id x)) eqn:E.
  - f_equal. apply String.eqb_eq in E. apply map_no_match. rewrite E. exact Hx.
  - f_equal. apply IH. exact Hr.
Qed.

Lemma claim_upd_map : forall modified fs fs',
  NoDup (map f_id fs) -> NoDup (map fst modified) ->
  foldM claim_upd modified fs = Ok fs' -> fs' = map (upd_by modified) fs.
Proof.
  induction modified as [|[id t] rest IH]; intros fs fs' Hnd Hndm H; cbn [foldM] in H.
  - inversion H; subst. unfold upd_by. cbn [assoc]. rewrite map_id. reflexivity.
  - apply bind_ok in H. destruct H as [fs1 [H1 H]].
    inversion Hndm as [|x xs Hid Hrest]; subst. cbn [fst] in Hid.
    unfold claim_upd in H1. cbn [fst snd] in H1.
    apply bind_ok in H1. destruct H1 as [f [Hf H1]]. apply of_option_ok in Hf.
    apply bind_ok in H1. destruct H1 as [c [Hc H1]]. unfold cadd in Hc. apply chk_ok in Hc. destruct Hc as [-> _].
    apply bind_ok in H1. destruct H1 as [[] [_ H1]]. inversion H1; subst fs1; clear H1.
    pose proof (sfind_key _ _ _ _ Hf) as Hk.
    set (g' := {| f_id := f_id f; f_owner := f_owner f; f_lp := f_lp f; f_asset := f_asset f; f_claimed := f_claimed f + t;
                  f_rate := f_rate f; f_start := f_start f; f_end := f_end f |}) in *.
    assert (Hins : sinsert f_id g' fs = map (fun x => if String.eqb id (f_id x) then with_claimed x (f_claimed x + t) else x) fs).
    { unfold sinsert. cbn [f_id g']. rewrite Hk, Hf. rewrite (sreplace_map g' fs Hnd). cbn [f_id g']. rewrite Hk.
      apply map_ext_in. intros x Hx. destruct (String.eqb id (f_id x)) eqn:E; [|reflexivity].
      apply String.eqb_eq in E. pose proof (NoDup_in_sfind f_id x fs Hnd Hx) as Hx'. rewrite <- E, Hf in Hx'. inversion Hx'; subst x. reflexivity. }
    rewrite Hins in H.
    assert (Hnd1 : NoDup (map f_id (map (fun x => if String.eqb id (f_id x) then with_claimed x (f_claimed x + t) else x) fs))).
    { rewrite map_map. erewrite map_ext; [exact Hnd|]. intros x. cbv beta. destruct (String.eqb id (f_id x)); reflexivity. }
    rewrite (IH _ _ Hnd1 Hrest H), map_map. apply map_ext. intros x. unfold upd_by. cbn [assoc].
    destruct (String.eqb id (f_id x)) eqn:E.
    + apply String.eqb_eq in E. cbn [with_claimed f_id]. rewrite <- E, String.eqb_refl.
      assert (assoc id rest = None) as ->.
      { clear - Hid. induction rest as [|[k v] r IHr]; cbn [assoc]; [reflexivity|].
        destruct (String.eqb id k) eqn:Ek; [apply String.eqb_eq in Ek; subst; exfalso; apply Hid; left; reflexivity|].
        apply IHr. intros C. apply Hid. right. exact C. }
      reflexivity.
    + rewrite String.eqb_sym, E. reflexivity.
Qed.

Lemma with_claimed_same g : with_claimed g (f_claimed g + 0) = g.
Proof. destruct g. unfold with_claimed. cbn. f_equal. lia. Qed.

Lemma upd_by_lp m g : f_lp (upd_by m g) = f_lp g.
Proof. unfold upd_by. destruct (assoc (f_id g) m); reflexivity. Qed.

Lemma take_map {A B} (h : A -> B) n : forall l, take n (map h l) = map h (take n l).
Proof. induction n as [|n IH]; intros l; destruct l; cbn; try reflexivity. rewrite IH. reflexivity. Qed.

Lemma filter_map_lp m lp l :
  filter (fun f => String.eqb (f_lp f) lp) (map (upd_by m) l) = map (upd_by m) (filter (fun f => String.eqb (f_lp f) lp) l).
Proof.
  induction l as [|x r IH]; cbn [map filter]; [reflexivity|]. rewrite upd_by_lp.
  destruct (String.eqb (f_lp x) lp); cbn [map]; rewrite IH; reflexivity.
Qed.

Lemma assoc_flat_map_notin s lp recv until lc id : forall r,
  ~ In id (map f_id r) -> assoc id (flat_map (mod_of s lp recv until lc) r) = None.
Proof.
  induction r as [|z t IHt]; intros H; cbn [flat_map]; [reflexivity|].
  assert (Hz : String.eqb id (f_id z) = false) by (apply String.eqb_neq; intros C; apply H; left; congruence).
  unfold mod_of at 1. destruct (rw s lp recv until lc z); cbn [app assoc]; [|rewrite Hz]; apply IHt; intros C; apply H; right; exact C.
Qed.

Lemma assoc_flat_map s lp recv until lc g : forall farms,
  NoDup (map f_id farms) -> In g farms ->
  assoc (f_id g) (flat_map (mod_of s lp recv until lc) farms) =
  match rw s lp recv until lc g with [] => None | rs => Some (sum_snd rs) end.
Proof.
  induction farms as [|x r IH]; intros Hnd Hin; [destruct Hin|]. inversion Hnd as [|y ys Hx Hr]; subst. cbn [flat_map].
  destruct Hin as [->|Hin].
  - unfold mod_of at 1. destruct (rw s lp recv until lc g) as [|e0 t0] eqn:E.
    + cbn [app]. apply assoc_flat_map_notin. exact Hx.
    + cbn [app assoc]. rewrite String.eqb_refl. reflexivity.
  - assert (Hz : String.eqb (f_id g) (f_id x) = false).
    { apply String.eqb_neq. intros C. apply Hx. rewrite <- C. apply in_map. exact Hin. }
    unfold mod_of at 1. destruct (rw s lp recv until lc x); cbn [app assoc]; [|rewrite Hz]; apply IH; assumption.
Qed.

Lemma calculate_rewards_modified s lp recv until c agg m :
  calculate_rewards s lp recv until = Ok (agg, m) -> lc_get (fm_last_claimed s) recv = Some c -> until <> c ->
  m = flat_map (mod_of s lp recv until (Some c)) (farms_by_lp s lp (fm_max_farms (fm_cfg s))).
Proof.
  unfold calculate_rewards. intros H Hlc Hne. rewrite Hlc in H.
  apply bind_ok in H. destruct H as [[] [_ H]].
  replace (until =? c) with false in H by lia.
  apply bind_ok in H. destruct H as [[c1 m1] [Hf H]].
  apply bind_ok in H. destruct H as [agg' [_ H]]. inversion H; subst agg' m1; clear H.
  apply calc_fold_modified in Hf. exact Hf.
Qed.

Lemma flat_map_ids_sub s lp recv until lc : forall farms id,
  In id (map fst (flat_map (mod_of s lp recv until lc) farms)) -> In id (map f_id farms).
Proof.
  induction farms as [|x r IH]; intros id H; cbn [flat_map] in H; [exact H|].
  rewrite map_app in H. apply in_app_iff in H. destruct H as [H|H]; [|right; apply IH; exact H].
  unfold mod_of in H. destruct (rw s lp recv until lc x); [destruct H|]. cbn in H. destruct H as [<-|[]]. left. reflexivity.
Qed.

Lemma flat_map_ids_nodup s lp recv until lc : forall farms,
  NoDup (map f_id farms) -> NoDup (map fst (flat_map (mod_of s lp recv until lc) farms)).
Proof.
  induction farms as [|x r IH]; intros H; cbn [flat_map]; [constructor|].
  inversion H as [|y ys Hx Hr]; subst. rewrite map_app. apply NoDup_app_intro; [| apply IH; exact Hr |].
  - unfold mod_of. destruct (rw s lp recv until lc x); cbn; repeat constructor. intros [].
  - intros k Hk Hk2. apply flat_map_ids_sub in Hk2. unfold mod_of in Hk. destruct (rw s lp recv until lc x); [destruct Hk|].
    cbn in Hk. destruct Hk as [<-|[]]. exact (Hx Hk2).
Qed.

Lemma claim_upd_bounded : forall modified fs fs',
  foldM claim_upd modified fs = Ok fs' ->
  (forall f, In f fs -> f_claimed f <= amount_of (f_asset f)) ->
  forall f, In f fs' -> f_claimed f <= amount_of (f_asset f).
Proof.
  induction modified as [|m rest IH]; intros fs fs' H Hwf; cbn [foldM] in H; [inversion H; subst; exact Hwf|].
  apply bind_ok in H. destruct H as [fs1 [H1 H]]. apply (IH _ _ H).
  unfold claim_upd in H1.
  apply bind_ok in H1. destruct H1 as [f [_ H1]].
  apply bind_ok in H1. destruct H1 as [c [Hc H1]]. unfold cadd in Hc. apply chk_ok in Hc. destruct Hc as [-> _].
  apply bind_ok in H1. destruct H1 as [[] [Hle H1]]. apply ensure_ok in Hle. inversion H1; subst fs1; clear H1.
  intros g Hg. apply sinsert_in in Hg. destruct Hg as [->|Hg]; [cbn; lia | apply Hwf; exact Hg].
Qed.

(* ---------- a claim by a user staking one LP denom, with the state it leaves ---------- *)
Lemma claim_single_full w sender until s' msgs lp :
  unique_lp_denoms (positions_by_receiver (w_fm w) sender true) = [lp] ->
  claim w sender [] until = Ok (s', msgs) ->
  exists ep u rewards modified e0 x0 e1 w1,
    q_current_epoch w (fm_epoch_manager (fm_cfg (w_fm w))) = Ok ep /\
    until_epoch_or_current until (ep_id ep) = Ok u /\
    calculate_rewards (w_fm w) lp sender u = Ok (rewards, modified) /\
    foldM claim_upd modified (fm_farms (w_fm w)) = Ok (fm_farms s') /\
    w_earliest (fm_weights (w_fm w)) sender lp = Some (e0, x0) /\ w_latest (fm_weights (w_fm w)) sender lp = Some (e1, w1) /\
    fm_weights s' = synced (fm_weights (w_fm w)) sender lp e0 e1 u w1 /\
    fm_cfg s' = fm_cfg (w_fm w) /\ fm_positions s' = fm_positions (w_fm w) /\
    lc_get (fm_last_claimed s') sender = Some u /\
    forall d, out_amt msgs d = camt rewards d.
Proof.
  intros Hlp. unfold claim. cbn [nonpayable bind]. intros H.
  apply bind_ok in H. destruct H as [[] [_ H]].
  apply bind_ok in H. destruct H as [ep [Hep H]].
  apply bind_ok in H. destruct H as [u [Hu H]].
  rewrite Hlp in H. cbn [foldM] in H.
  apply bind_ok in H. destruct H as [[s1 total] [Hf H]].
  apply bind_ok in Hf. destruct Hf as [acc1 [Hstep Hf]]. inversion Hf; subst acc1; clear Hf.
  cbn [fst snd] in Hstep.
  apply bind_ok in Hstep. destruct Hstep as [[rewards modified] [Hcr Hstep]].
  apply bind_ok in Hstep. destruct Hstep as [farms' [Hupd Hstep]].
  apply bind_ok in Hstep. destruct Hstep as [s2 [Hs2 Hstep]]. inversion Hstep; subst s1 total; clear Hstep.
  apply bind_ok in H. destruct H as [ms [Hms H]]. inversion H; subst s' msgs; clear H.
  unfold sync_weight_history in Hs2. cbn [fm_set_farms fm_with fm_weights] in Hs2.
  destruct (w_earliest (fm_weights (w_fm w)) sender lp) as [[e0 x0]|] eqn:Ee; [|discriminate].
  destruct (w_latest (fm_weights (w_fm w)) sender lp) as [[e1 w1]|] eqn:El; [|discriminate].
  inversion Hs2; subst s2; clear Hs2.
  exists ep, u, rewards, modified, e0, x0, e1, w1.
  split; [exact Hep|]. split; [exact Hu|]. split; [exact Hcr|]. split; [exact Hupd|].
  split; [reflexivity|]. split; [reflexivity|]. split; [reflexivity|]. split; [reflexivity|]. split; [reflexivity|].
  split; [cbn [fm_set_last_claimed fm_with fm_last_claimed]; apply lc_get_set|].
  intros d. cbn [app] in Hms. destruct rewards as [|c0 r0]; [inversion Hms; reflexivity|].
  apply bind_ok in Hms. destruct Hms as [agg [Hagg Hms]]. inversion Hms; subst ms.
  cbn [out_amt]. unfold sent_amt, plain. cbn [sm_msg]. rewrite (aggregate_camt _ _ d Hagg). lia.
Qed.

(* ---------- the theorem ---------- *)
(* s: the farm manager's state; the user's cursor is at c. World wA (state s) is where he claims up to u1, leaving sA;
   world wB (state sA, any later block) is where he then claims up to u2; world wC (state s) is where he claims up to u2
   at once. All three succeed. Then, coin denom by coin denom, the single claim pays what the two claims pay together. *)
Theorem claim_twice_single_lp wA wB wC sender lp c u1 u2 sA sB sC msgs1 msgs2 msgsC e1 w1 e0c w0c :
  w_fm wC = w_fm wA -> w_fm wB = sA ->
  unique_lp_denoms (positions_by_receiver (w_fm wA) sender true) = [lp] ->
  lc_get (fm_last_claimed (w_fm wA)) sender = Some c -> c < u1 < u2 -> u1 < U64_MAX ->
  claim wA sender [] (Some u1) = Ok (sA, msgs1) ->
  claim wB sender [] (Some u2) = Ok (sB, msgs2) ->
  claim wC sender [] (Some u2) = Ok (sC, msgsC) ->
  NoDup (map f_id (fm_farms (w_fm wA))) ->
  (forall f, In f (fm_farms (w_fm wA)) -> 0 <= f_claimed f <= amount_of (f_asset f) /\ amount_of (f_asset f) <= U128_MAX) ->
  String.eqb FM sender = false ->
  w_latest (fm_weights (w_fm wA)) sender lp = Some (e1, w1) -> c <= e1 <= u1 + 1 ->
  w_earliest (fm_weights (w_fm wA)) FM lp = Some (e0c, w0c) -> e0c <= c + 1 ->
  forall d, out_amt msgsC d = out_amt msgs1 d + out_amt msgs2 d.
Proof.
  intros HsC HsB Hlp Hlc Hu Hu1 HA HB HC Hnd Hwf Hfm Hl Hle Hec Hec0 d.
  remember (w_fm wA) as s eqn:Hs.
  assert (HlpA : unique_lp_denoms (positions_by_receiver (w_fm wA) sender true) = [lp]) by (rewrite <- Hs; exact Hlp).
  destruct (claim_single_full _ _ _ _ _ _ HlpA HA) as (epA & uA & rew1 & mod1 & e0 & x0 & e1' & w1' & _ & HuA & Hcr1 & Hupd1 & He & Hl' & HwsA & HcfgA & HposA & HlcA & Hout1).
  cbn [until_epoch_or_current] in HuA. apply bind_ok in HuA. destruct HuA as [[] [_ HuA]]. inversion HuA; subst uA; clear HuA.
  rewrite <- Hs in *. rewrite Hl in Hl'. inversion Hl'; subst e1' w1'; clear Hl'.
  assert (HlpC : unique_lp_denoms (positions_by_receiver (w_fm wC) sender true) = [lp]) by (rewrite HsC; exact Hlp).
  destruct (claim_single_full _ _ _ _ _ _ HlpC HC) as (epC & uC & rewC & modC & _ & _ & _ & _ & _ & HuC & HcrC & HupdC & _ & _ & _ & _ & _ & _ & HoutC).
  cbn [until_epoch_or_current] in HuC. apply bind_ok in HuC. destruct HuC as [[] [_ HuC]]. inversion HuC; subst uC; clear HuC.
  rewrite HsC in HcrC, HupdC.
  assert (HlpB : unique_lp_denoms (positions_by_receiver (w_fm wB) sender true) = [lp]).
  { rewrite HsB. unfold positions_by_receiver. rewrite HposA. exact Hlp. }
  destruct (claim_single_full _ _ _ _ _ _ HlpB HB) as (epB & uB & rew2 & mod2 & _ & _ & _ & _ & _ & HuB & Hcr2 & _ & _ & _ & _ & _ & _ & _ & Hout2).
  cbn [until_epoch_or_current] in HuB. apply bind_ok in HuB. destruct HuB as [[] [_ HuB]]. inversion HuB; subst uB; clear HuB.
  rewrite HsB in Hcr2.
  rewrite HoutC, Hout1, Hout2.
  (* the farm table after the first claim *)
  remember (farms_by_lp s lp (fm_max_farms (fm_cfg s))) as farms eqn:Hfarms.
  destruct (farms_by_lp_sub s lp (fm_max_farms (fm_cfg s))) as [Hsub Hsubnd]. rewrite <- Hfarms in Hsub, Hsubnd.
  pose proof (Hsubnd Hnd) as Hfnd.
  pose proof (calculate_rewards_modified _ _ _ _ _ _ _ Hcr1 Hlc ltac:(lia)) as Hm1. rewrite <- Hfarms in Hm1.
  pose proof (calculate_rewards_modified _ _ _ _ _ _ _ HcrC Hlc ltac:(lia)) as HmC. rewrite <- Hfarms in HmC.
  assert (HfA : fm_farms sA = map (upd_by mod1) (fm_farms s)).
  { apply claim_upd_map; [exact Hnd | rewrite Hm1; apply flat_map_ids_nodup; exact Hfnd | exact Hupd1]. }
  assert (HfarmsA : farms_by_lp sA lp (fm_max_farms (fm_cfg s))
                    = map (fun f => with_claimed f (f_claimed f + sum_snd (rw s lp sender u1 (Some c) f))) farms).
  { unfold farms_by_lp. rewrite HfA, filter_map_lp, take_map. fold (farms_by_lp s lp (fm_max_farms (fm_cfg s))). rewrite <- Hfarms.
    apply map_ext_in. intros g Hg. unfold upd_by. rewrite Hm1, (assoc_flat_map _ _ _ _ _ g farms Hfnd Hg).
    destruct (rw s lp sender u1 (Some c) g); [cbn [sum_snd]; symmetry; apply with_claimed_same | reflexivity]. }
  (* the budget of the single claim *)
  assert (Hbud : forall f, In f farms -> 0 <= f_claimed f /\ f_claimed f + sum_snd (rw s lp sender u2 (Some c) f) <= amount_of (f_asset f) <= U128_MAX).
  { intros f Hf. destruct (Hwf f (Hsub f Hf)) as [[A B] C]. split; [exact A|]. split; [|exact C].
    assert (HfC : fm_farms sC = map (upd_by modC) (fm_farms s)).
    { apply claim_upd_map; [exact Hnd | rewrite HmC; apply flat_map_ids_nodup; exact Hfnd | exact HupdC]. }
    assert (Hb : forall g, In g (fm_farms sC) -> f_claimed g <= amount_of (f_asset g)).
    { apply (claim_upd_bounded _ _ _ HupdC). intros g Hg. destruct (Hwf g Hg) as [[_ B'] _]. exact B'. }
    specialize (Hb (upd_by modC f)). rewrite HfC in Hb. specialize (Hb (in_map _ _ _ (Hsub f Hf))).
    unfold upd_by in Hb. rewrite HmC, (assoc_flat_map _ _ _ _ _ f farms Hfnd Hf) in Hb.
    destruct (rw s lp sender u2 (Some c) f) as [|e0' t0]; [cbn [sum_snd]; lia | exact Hb]. }
  eapply (calculate_rewards_split s sA lp sender c u1 u2 rewC modC rew1 mod1 rew2 mod2 e0 x0 e1 w1 e0c w0c);
    try eassumption.
  - rewrite <- Hfarms. exact HfarmsA.
  - rewrite HwsA. apply wsame_refl.
  - rewrite <- Hfarms. exact Hbud.
Qed.
