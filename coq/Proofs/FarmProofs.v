(* FarmProofs.v — farm-manager handlers: positions (C08), emergency exits (C09), weights bookkeeping (C10),
   farm lifecycle (C11). *)
From MD.Model Require Import Base Ownable Epoch PoolMath Types PoolManager FarmManager.
From MD.Proofs Require Import Tactics Arith PoolMathProofs MapLemmas WeightProofs.

(* ---------- helpers that only touch weights / cursors ---------- *)
Definition fm_same_tables (s s' : fm_state) : Prop :=
  fm_cfg s' = fm_cfg s /\ fm_own s' = fm_own s /\ fm_positions s' = fm_positions s /\
  fm_pos_counter s' = fm_pos_counter s /\ fm_farms s' = fm_farms s /\ fm_farm_counter s' = fm_farm_counter s.

Lemma fm_same_tables_refl s : fm_same_tables s s. Proof. repeat split. Qed.
Lemma fm_same_tables_trans a b c : fm_same_tables a b -> fm_same_tables b c -> fm_same_tables a c.
Proof. unfold fm_same_tables. intuition congruence. Qed.

Lemma update_weights_tables w s recv lp amount dur fill s' :
  update_weights w s recv lp amount dur fill = Ok s' -> fm_same_tables s s' /\ fm_last_claimed s' = fm_last_claimed s.
Proof. unfold update_weights. intros H. inv_all; repeat split. Qed.

Lemma sync_tables s a lp e sl s' :
  sync_weight_history s a lp e sl = Ok s' -> fm_same_tables s s' /\ fm_last_claimed s' = fm_last_claimed s.
Proof. unfold sync_weight_history. intros H. inv_all; repeat split. Qed.

Lemma reconcile_tables w s recv lp s' :
  reconcile_user_state w s recv lp = Ok s' -> fm_same_tables s s'.
Proof.
  unfold reconcile_user_state. intros H.
  destruct (positions_by_receiver s recv true) eqn:Ep.
  - destruct (forallb _ _); [|inversion H; subst; repeat split].
    destruct (w_earliest _ _ _); [|inversion H; subst; repeat split].
    apply bind_ok in H. destruct H as [ep [_ H]]. apply sync_tables in H. destruct H as [H _].
    eapply fm_same_tables_trans; [|exact H]. repeat split.
  - destruct (forallb _ _); [|inversion H; subst; repeat split].
    destruct (w_earliest _ _ _); [|inversion H; subst; repeat split].
    apply bind_ok in H. destruct H as [ep [_ H]]. apply sync_tables in H. destruct H as [H _]. exact H.
Qed.

(* C10: every weight change is written at epoch current+1 only (takes effect from the next epoch) *)
Lemma update_weights_effective_next_epoch w s recv lp amount dur fill s' :
  update_weights w s recv lp amount dur fill = Ok s' ->
  exists ep wgt cw uw,
    q_current_epoch w (fm_epoch_manager (fm_cfg s)) = Ok ep /\ calculate_weight amount dur = Ok wgt /\
    fm_weights s' = w_set (w_set (fm_weights s) (mkw FM lp (ep_id ep + 1)) cw) (mkw recv lp (ep_id ep + 1)) uw /\
    cw = (if fill then latest_weight (fm_weights s) FM lp + wgt else ssub (latest_weight (fm_weights s) FM lp) wgt) /\
    uw = (let ws1 := w_set (fm_weights s) (mkw FM lp (ep_id ep + 1)) cw in
          if fill then latest_weight ws1 recv lp + wgt else ssub (latest_weight ws1 recv lp) wgt).
Proof.
  unfold update_weights. intros H.
  apply bind_ok in H. destruct H as [ep [Hep H]].
  apply bind_ok in H. destruct H as [wgt [Hw H]].
  apply bind_ok in H. destruct H as [e1 [He1 H]].
  destruct (in_range U64_MAX (ep_id ep + 1)); [|discriminate]. inversion He1; subst e1.
  apply bind_ok in H. destruct H as [cw [Hcw H]].
  apply bind_ok in H. destruct H as [uw [Huw H]].
  inversion H; subst. exists ep, wgt, cw, uw. cbn [fm_weights fm_set_weights fm_with].
  repeat split; auto.
  - destruct fill; [unfold cadd in Hcw; apply chk_ok in Hcw; destruct Hcw as [-> _]; reflexivity | inversion Hcw; reflexivity].
  - cbv zeta. destruct fill; [unfold cadd in Huw; apply chk_ok in Huw; destruct Huw as [-> _]; reflexivity | inversion Huw; reflexivity].
Qed.

(* ---------- withdraw_position ---------- *)
Definition send_to (to lp : string) (amt : Z) : submsg := plain (MBankSend to [(lp, amt)]).

Lemma withdraw_position_spec w sender funds id em s' msgs :
  withdraw_position w sender funds id em = Ok (s', msgs) ->
  funds = [] /\
  exists p, sfind pos_id id (fm_positions (w_fm w)) = Some p /\ pos_recv p = sender /\
    fm_positions s' = sremove pos_id id (fm_positions (w_fm w)) /\
    fm_farms s' = fm_farms (w_fm w) /\ fm_cfg s' = fm_cfg (w_fm w) /\ fm_own s' = fm_own (w_fm w) /\
    fm_pos_counter s' = fm_pos_counter (w_fm w) /\
    let lp := denom_of (pos_lp p) in let amount := amount_of (pos_lp p) in
    let now := seconds (w_block w) in
    ((* normal path *)
     (~ (em = Some true /\ position_is_expired p now = false) /\
      (exists e, pos_exp p = Some e /\ e <= now) /\
      msgs = (if amount =? 0 then [] else [send_to (pos_recv p) lp amount]))
     \/
     (* emergency path *)
     (em = Some true /\ position_is_expired p now = false /\
      exists tp owners per collector,
        0 <= tp < amount /\ tp * 10 <= amount * 9 /\
        0 <= per /\ 0 <= collector /\ Z.of_nat (List.length owners) * per + collector <= tp /\
        (owners = [] -> collector = tp) /\
        msgs = (map (fun o => send_to o lp per) owners ++
                (if 0 <? collector then [send_to (fm_fee_collector (fm_cfg (w_fm w))) lp collector] else []) ++
                (if ssub amount tp =? 0 then [] else [send_to (pos_recv p) lp (ssub amount tp)]))%list)).
Proof.
  unfold withdraw_position. intros H.
  apply bind_ok in H. destruct H as [[] [Hn H]]. unfold nonpayable in Hn. destruct funds; [|discriminate].
  split; [reflexivity|].
  apply bind_ok in H. destruct H as [p [Hp H]]. apply of_option_ok in Hp.
  apply bind_ok in H. destruct H as [[] [Ho H]]. apply ensure_ok in Ho. apply String.eqb_eq in Ho.
  apply bind_ok in H. destruct H as [[[s1 ms] am] [Hb H]].
  apply bind_ok in H. destruct H as [s3 [Hr H]]. inversion H; subst s' msgs; clear H.
  exists p. split; [exact Hp|]. split; [exact Ho|].
  set (s2 := fm_set_positions s1 (sremove pos_id id (fm_positions s1))) in *.
  assert (Hs3 : fm_same_tables s2 s3).
  { destruct (pos_open p); [eapply reconcile_tables; eauto | inversion Hr; subst; apply fm_same_tables_refl]. }
  destruct (match em with Some true => true | _ => false end && negb (position_is_expired p (seconds (w_block w)))) eqn:Ebranch.
  - (* emergency *)
    apply andb_true_iff in Ebranch. destruct Ebranch as [Eem Eexp].
    assert (em = Some true) as -> by (destruct em as [[|]|]; try discriminate; reflexivity).
    apply negb_true_iff in Eexp.
    apply bind_ok in Hb. destruct Hb as [pen [Hpen Hb]].
    apply bind_ok in Hb. destruct Hb as [ad [Had Hb]].
    apply bind_ok in Hb. destruct Hb as [tpd [Htp Hb]].
    apply bind_ok in Hb. destruct Hb as [[] [Hlt Hb]]. apply ensure_ok in Hlt.
    apply bind_ok in Hb. destruct Hb as [td [Htd Hb]].
    apply bind_ok in Hb. destruct Hb as [ocd [Hoc Hb]].
    apply bind_ok in Hb. destruct Hb as [ep [Hep Hb]].
    apply bind_ok in Hb. destruct Hb as [farms [Hfarms Hb]].
    apply bind_ok in Hb. destruct Hb as [[omsgs coll] [Hom Hb]].
    apply bind_ok in Hb. destruct Hb as [s'' [Hs'' Hb]]. inversion Hb; subst s1 ms am; clear Hb.
    assert (Ht1 : fm_same_tables (w_fm w) s'').
    { destruct (pos_open p); [apply update_weights_tables in Hs''; destruct Hs''; assumption | inversion Hs''; subst; apply fm_same_tables_refl]. }
    destruct Ht1 as (T1 & T2 & T3 & T4 & T5 & T6). destruct Hs3 as (U1 & U2 & U3 & U4 & U5 & U6).
    unfold s2 in *. cbn [fm_set_positions fm_with fm_positions fm_farms fm_cfg fm_own fm_pos_counter] in *.
    rewrite U3, U5, U1, U2, U4, T3, T5, T1, T2, T4.
    repeat split; try reflexivity. cbv zeta. right. split; [reflexivity|]. split; [exact Eexp|].
    (* arithmetic of the split *)
    unfold dec_from_ratio, dec_mul in Had, Htp, Htd, Hoc.
    change (1 =? 0) with false in Had, Htd. cbv iota in Had, Htd.
    apply chk_ok in Had. destruct Had as [-> Hadr].
    apply chk_ok in Htp. destruct Htp as [-> Htpr].
    apply chk_ok in Htd. destruct Htd as [-> Htdr].
    apply chk_ok in Hoc. destruct Hoc as [-> Hocr].
    unfold dec_floor in *. rewrite !Z.div_1_r in *.
    set (amount := amount_of (pos_lp p)) in *.
    rewrite !(mul_DEC_div amount pen) in *.
    set (tp := amount * pen / DEC) in *.
    rewrite !(mul_DEC_div tp PENALTY_FEE_SHARE) in *.
    set (oc := tp * PENALTY_FEE_SHARE / DEC) in *.
    pose proof DEC_pos as HD.
    assert (Hpen9 : pen <= PCT 90) by (eapply penalty_le_cap; eauto).
    assert (Hamt : 0 <= amount) by (unfold DEC in *; lia).
    assert (Htp0 : 0 <= tp) by lia.
    assert (Htp9 : tp * 10 <= amount * 9).
    { assert (tp <= amount * PCT 90 / DEC) by (clear - Hamt Hpen9 HD; unfold tp; apply Z.div_le_mono; nia).
      assert (amount * PCT 90 / DEC * 10 <= amount * 9).
      { unfold PCT, DEC. pose proof (Z.mul_div_le (amount * (90 * 10000000000000000)) 1000000000000000000 ltac:(lia)). lia. }
      lia. }
    assert (Hoc0 : 0 <= oc <= tp).
    { clear - Htp0 HD. unfold oc, PENALTY_FEE_SHARE, PCT, DEC in *. split; [apply Z.div_pos; lia|]. apply Z.div_le_upper_bound; lia. }
    exists tp.
    destruct (dedup (map f_owner farms)) as [|o0 orest] eqn:Eown.
    + inversion Hom; subst omsgs coll. exists [], 0, tp. cbn [map List.length app].
      repeat split; try lia.
    + apply bind_ok in Hom. destruct Hom as [od [Hod Hom]].
      unfold dec_from_ratio in Hod.
      destruct (Z.of_nat (List.length (o0 :: orest)) =? 0) eqn:En; [discriminate|].
      apply chk_ok in Hod. destruct Hod as [-> _].
      rewrite div_div_DEC in Hom by lia.
      set (n := Z.of_nat (List.length (o0 :: orest))) in *.
      set (per := oc / n) in *.
      assert (Hnpos : 0 < n) by lia.
      assert (Hper : 0 <= per /\ n * per <= oc).
      { unfold per. split; [apply Z.div_pos; lia | apply Z.mul_div_le; lia]. }
      destruct (0 <? per) eqn:Eper; inversion Hom; subst omsgs coll.
      * exists (o0 :: orest), per, (ssub tp oc). fold n. unfold ssub.
        repeat split; try lia; try discriminate. rewrite <- app_assoc. reflexivity.
      * exists [], 0, tp. cbn [map List.length app]. repeat split; try lia.
  - (* normal *)
    apply bind_ok in Hb. destruct Hb as [[] [He1 Hb]]. apply ensure_ok in He1.
    apply bind_ok in Hb. destruct Hb as [[] [He2 Hb]]. apply ensure_ok in He2.
    inversion Hb; subst s1 ms am; clear Hb.
    destruct Hs3 as (U1 & U2 & U3 & U4 & U5 & U6).
    unfold s2 in *. cbn [fm_set_positions fm_with fm_positions fm_farms fm_cfg fm_own fm_pos_counter] in *.
    rewrite U3, U5, U1, U2, U4.
    repeat split; try reflexivity. cbv zeta. left. split; [|split].
    + intros [-> Hx]. rewrite Hx in Ebranch. discriminate.
    + unfold position_is_expired in He2. destruct (pos_exp p) as [e|]; [|discriminate]. exists e. split; [reflexivity | lia].
    + reflexivity.
Qed.
