(* FarmProofs.v — farm-manager handlers: positions (C08), emergency exits (C09), weights bookkeeping (C10),
   farm lifecycle (C11). *)
From MD.Model Require Import Base Ownable Epoch PoolMath Types PoolManager FarmManager.
From MD.Proofs Require Import Tactics Arith PoolMathProofs MapLemmas WeightProofs.

(* ---------- helpers that only touch weights / cursors ---------- *)
Definition fm_same_tables (s s' : fm_state) : Prop :=
  fm_cfg s' = fm_cfg s /\ fm_own s' = fm_own s /\ fm_positions s' = fm_positions s /\
  fm_pos_counter s' = fm_pos_counter s /\ fm_farms s' = fm_farms s /\ fm_farm_counter s' = fm_farm_counter s.

Lemma fm_same_tables_refl s : fm_same_tables s s. Proof. repeat split. Qed.
Lemma fm_same_tables_trans a b c : fm_same_tables a b -> fm_same_tables b c -> fm_same_tables a c.
Proof. unfold fm_same_tables. intuition congruence. Qed.

Lemma update_weights_tables w s recv lp amount dur fill s' :
  update_weights w s recv lp amount dur fill = Ok s' -> fm_same_tables s s' /\ fm_last_claimed s' = fm_last_claimed s.
Proof. unfold update_weights. intros H. inv_all; repeat split. Qed.

Lemma sync_tables s a lp e sl s' :
  sync_weight_history s a lp e sl = Ok s' -> fm_same_tables s s' /\ fm_last_claimed s' = fm_last_claimed s.
Proof. unfold sync_weight_history. intros H. inv_all; repeat split. Qed.

Lemma reconcile_tables w s recv lp s' :
  reconcile_user_state w s recv lp = Ok s' -> fm_same_tables s s'.
Proof.
  unfold reconcile_user_state. intros H.
  destruct (positions_by_receiver s recv true) eqn:Ep.
  - destruct (forallb _ _); [|inversion H; subst; repeat split].
    destruct (w_earliest _ _ _); [|inversion H; subst; repeat split].
    apply bind_ok in H. destruct H as [ep [_ H]]. apply sync_tables in H. destruct H as [H _].
    eapply fm_same_tables_trans; [|exact H]. repeat split.
  - destruct (forallb _ _); [|inversion H; subst; repeat split].
    destruct (w_earliest _ _ _); [|inversion H; subst; repeat split].
    apply bind_ok in H. destruct H as [ep [_ H]]. apply sync_tables in H. destruct H as [H _]. exact H.
Qed.

(* C10: every weight change is written at epoch current+1 only (takes effect from the next epoch) *)
Lemma update_weights_effective_next_epoch w s recv lp amount dur fill s' :
  update_weights w s recv lp amount dur fill = Ok s' ->
  exists ep wgt cw uw,
    q_current_epoch w (fm_epoch_manager (fm_cfg s)) = Ok ep /\ calculate_weight amount dur = Ok wgt /\
    fm_weights s' = w_set (w_set (fm_weights s) (mkw FM lp (ep_id ep + 1)) cw) (mkw recv lp (ep_id ep + 1)) uw /\
    cw = (if fill then latest_weight (fm_weights s) FM lp + wgt else ssub (latest_weight (fm_weights s) FM lp) wgt) /\
    uw = (let ws1 := w_set (fm_weights s) (mkw FM lp (ep_id ep + 1)) cw in
          if fill then latest_weight ws1 recv lp + wgt else ssub (latest_weight ws1 recv lp) wgt).
Proof.
  unfold update_weights. intros H.
  apply bind_ok in H. destruct H as [ep [Hep H]].
  apply bind_ok in H. destruct H as [wgt [Hw H]].
  apply bind_ok in H. destruct H as [e1 [He1 H]].
  destruct (in_range U64_MAX (ep_id ep + 1)); [|discriminate]. inversion He1; subst e1.
  apply bind_ok in H. destruct H as [cw [Hcw H]].
  apply bind_ok in H. destruct H as [uw [Huw H]].
  inversion H; subst. exists ep, wgt, cw, uw. cbn [fm_weights fm_set_weights fm_with].
  repeat split; auto.
  - destruct fill; [unfold cadd in Hcw; apply chk_ok in Hcw; destruct Hcw as [-> _]; reflexivity | inversion Hcw; reflexivity].
  - cbv zeta. destruct fill; [unfold cadd in Huw; apply chk_ok in Huw; destruct Huw as [-> _]; reflexivity | inversion Huw; reflexivity].
Qed.

(* ---------- withdraw_position ---------- *)
Definition send_to (to lp : string) (amt : Z) : submsg := plain (MBankSend to [(lp, amt)]).

Lemma withdraw_position_spec w sender funds id em s' msgs :
  withdraw_position w sender funds id em = Ok (s', msgs) ->
  funds = [] /\
  exists p, sfind pos_id id (fm_positions (w_fm w)) = Some p /\ pos_recv p = sender /\
    fm_positions s' = sremove pos_id id (fm_positions (w_fm w)) /\
    fm_farms s' = fm_farms (w_fm w) /\ fm_cfg s' = fm_cfg (w_fm w) /\ fm_own s' = fm_own (w_fm w) /\
    fm_pos_counter s' = fm_pos_counter (w_fm w) /\
    let lp := denom_of (pos_lp p) in let amount := amount_of (pos_lp p) in
    let now := seconds (w_block w) in
    ((* normal path *)
     (~ (em = Some true /\ position_is_expired p now = false) /\
      (exists e, pos_exp p = Some e /\ e <= now) /\
      msgs = (if amount =? 0 then [] else [send_to (pos_recv p) lp amount]))
     \/
     (* emergency path *)
     (em = Some true /\ position_is_expired p now = false /\
      exists tp owners per collector,
        0 <= tp < amount /\ tp * 10 <= amount * 9 /\
        0 <= per /\ 0 <= collector /\ Z.of_nat (List.length owners) * per + collector <= tp /\
        (owners = [] -> collector = tp) /\
        msgs = (map (fun o => send_to o lp per) owners ++
                (if 0 <? collector then [send_to (fm_fee_collector (fm_cfg (w_fm w))) lp collector] else []) ++
                (if ssub amount tp =? 0 then [] else [send_to (pos_recv p) lp (ssub amount tp)]))%list)).
Proof.
  unfold withdraw_position. intros H.
  apply bind_ok in H. destruct H as [[] [Hn H]]. unfold nonpayable in Hn. destruct funds; [|discriminate].
  split; [reflexivity|].
  apply bind_ok in H. destruct H as [p [Hp H]]. apply of_option_ok in Hp.
  apply bind_ok in H. destruct H as [[] [Ho H]]. apply ensure_ok in Ho. apply String.eqb_eq in Ho.
  apply bind_ok in H. destruct H as [[[s1 ms] am] [Hb H]].
  apply bind_ok in H. destruct H as [s3 [Hr H]]. inversion H; subst s' msgs; clear H.
  exists p. split; [exact Hp|]. split; [exact Ho|].
  set (s2 := fm_set_positions s1 (sremove pos_id id (fm_positions s1))) in *.
  assert (Hs3 : fm_same_tables s2 s3).
  { destruct (pos_open p); [eapply reconcile_tables; eauto | inversion Hr; subst; apply fm_same_tables_refl]. }
  destruct (match em with Some true => true | _ => false end && negb (position_is_expired p (seconds (w_block w)))) eqn:Ebranch.
  - (* emergency *)
    apply andb_true_iff in Ebranch. destruct Ebranch as [Eem Eexp].
    assert (em = Some true) as -> by (destruct em as [[|]|]; try discriminate; reflexivity).
    apply negb_true_iff in Eexp.
    apply bind_ok in Hb. destruct Hb as [pen [Hpen Hb]].
    apply bind_ok in Hb. destruct Hb as [ad [Had Hb]].
    apply bind_ok in Hb. destruct Hb as [tpd [Htp Hb]].
    apply bind_ok in Hb. destruct Hb as [[] [Hlt Hb]]. apply ensure_ok in Hlt.
    apply bind_ok in Hb. destruct Hb as [td [Htd Hb]].
    apply bind_ok in Hb. destruct Hb as [ocd [Hoc Hb]].
    apply bind_ok in Hb. destruct Hb as [ep [Hep Hb]].
    apply bind_ok in Hb. destruct Hb as [farms [Hfarms Hb]].
    apply bind_ok in Hb. destruct Hb as [[omsgs coll] [Hom Hb]].
    apply bind_ok in Hb. destruct Hb as [s'' [Hs'' Hb]]. inversion Hb; subst s1 ms am; clear Hb.
    assert (Ht1 : fm_same_tables (w_fm w) s'').
    { destruct (pos_open p); [apply update_weights_tables in Hs''; destruct Hs''; assumption | inversion Hs''; subst; apply fm_same_tables_refl]. }
    destruct Ht1 as (T1 & T2 & T3 & T4 & T5 & T6). destruct Hs3 as (U1 & U2 & U3 & U4 & U5 & U6).
    unfold s2 in *. cbn [fm_set_positions fm_with fm_positions fm_farms fm_cfg fm_own fm_pos_counter] in *.
    rewrite U3, U5, U1, U2, U4, T3, T5, T1, T2, T4.
    repeat split; try reflexivity. cbv zeta. right. split; [reflexivity|]. split; [exact Eexp|].
    (* arithmetic of the split *)
    unfold dec_from_ratio, dec_mul in Had, Htp, Htd, Hoc.
    change (1 =? 0) with false in Had, Htd. cbv iota in Had, Htd.
    apply chk_ok in Had. destruct Had as [-> Hadr].
    apply chk_ok in Htp. destruct Htp as [-> Htpr].
    apply chk_ok in Htd. destruct Htd as [-> Htdr].
    apply chk_ok in Hoc. destruct Hoc as [-> Hocr].
    unfold dec_floor in *. rewrite !Z.div_1_r in *.
    set (amount := amount_of (pos_lp p)) in *.
    rewrite !(mul_DEC_div amount pen) in *.
    set (tp := amount * pen / DEC) in *.
    rewrite !(mul_DEC_div tp PENALTY_FEE_SHARE) in *.
    set (oc := tp * PENALTY_FEE_SHARE / DEC) in *.
    pose proof DEC_pos as HD.
    assert (Hpen9 : pen <= PCT 90) by (eapply penalty_le_cap; eauto).
    assert (Hamt : 0 <= amount) by (unfold DEC in *; lia).
    assert (Htp0 : 0 <= tp) by lia.
    assert (Htp9 : tp * 10 <= amount * 9).
    { assert (tp <= amount * PCT 90 / DEC) by (clear - Hamt Hpen9 HD; unfold tp; apply Z.div_le_mono; nia).
      assert (amount * PCT 90 / DEC * 10 <= amount * 9).
      { unfold PCT, DEC. pose proof (Z.mul_div_le (amount * (90 * 10000000000000000)) 1000000000000000000 ltac:(lia)). lia. }
      lia. }
    assert (Hoc0 : 0 <= oc <= tp).
    { clear - Htp0 HD. unfold oc, PENALTY_FEE_SHARE, PCT, DEC in *. split; [apply Z.div_pos; lia|]. apply Z.div_le_upper_bound; lia. }
    exists tp.
    destruct (dedup (map f_owner farms)) as [|o0 orest] eqn:Eown.
    + inversion Hom; subst omsgs coll. exists [], 0, tp. cbn [map List.length app].
      repeat split; try lia.
    + apply bind_ok in Hom. destruct Hom as [od [Hod Hom]].
      unfold dec_from_ratio in Hod.
      destruct (Z.of_nat (List.length (o0 :: orest)) =? 0) eqn:En; [discriminate|].
      apply chk_ok in Hod. destruct Hod as [-> _].
      rewrite div_div_DEC in Hom by lia.
      set (n := Z.of_nat (List.length (o0 :: orest))) in *.
      set (per := oc / n) in *.
      assert (Hnpos : 0 < n) by lia.
      assert (Hper : 0 <= per /\ n * per <= oc).
      { unfold per. split; [apply Z.div_pos; lia | apply Z.mul_div_le; lia]. }
      destruct (0 <? per) eqn:Eper; inversion Hom; subst omsgs coll.
      * exists (o0 :: orest), per, (ssub tp oc). fold n. unfold ssub.
        repeat split; try lia; try discriminate. rewrite <- app_assoc. reflexivity.
      * exists [], 0, tp. cbn [map List.length app]. repeat split; try lia.
  - (* normal *)
    apply bind_ok in Hb. destruct Hb as [[] [He1 Hb]]. apply ensure_ok in He1.
    apply bind_ok in Hb. destruct Hb as [[] [He2 Hb]]. apply ensure_ok in He2.
    inversion Hb; subst s1 ms am; clear Hb.
    destruct Hs3 as (U1 & U2 & U3 & U4 & U5 & U6).
    unfold s2 in *. cbn [fm_set_positions fm_with fm_positions fm_farms fm_cfg fm_own fm_pos_counter] in *.
    rewrite U3, U5, U1, U2, U4.
    repeat split; try reflexivity. cbv zeta. left. split; [|split].
    + intros [-> Hx]. rewrite Hx in Ebranch. discriminate.
    + unfold position_is_expired in He2. destruct (pos_exp p) as [e|]; [|discriminate]. exists e. split; [reflexivity | lia].
    + reflexivity.
Qed.

(* ---------- claim touches neither positions nor configuration; farms keep everything but their claimed amount ---------- *)
Definition farm_same_but_claimed (f f' : farm) : Prop :=
  f_id f' = f_id f /\ f_owner f' = f_owner f /\ f_lp f' = f_lp f /\ f_asset f' = f_asset f /\
  f_rate f' = f_rate f /\ f_start f' = f_start f /\ f_end f' = f_end f /\ f_claimed f <= f_claimed f' <= amount_of (f_asset f).

Lemma claim_tables w sender funds until s' msgs :
  claim w sender funds until = Ok (s', msgs) ->
  funds = [] /\ fm_positions s' = fm_positions (w_fm w) /\ fm_cfg s' = fm_cfg (w_fm w) /\ fm_own s' = fm_own (w_fm w) /\
  fm_pos_counter s' = fm_pos_counter (w_fm w) /\ fm_farm_counter s' = fm_farm_counter (w_fm w).
Proof.
  unfold claim. intros H.
  apply bind_ok in H. destruct H as [[] [Hn H]]. unfold nonpayable in Hn. destruct funds; [|discriminate].
  split; [reflexivity|].
  apply bind_ok in H. destruct H as [[] [_ H]].
  apply bind_ok in H. destruct H as [ep [_ H]].
  apply bind_ok in H. destruct H as [un [_ H]].
  apply bind_ok in H. destruct H as [[s1 total] [Hf H]].
  apply bind_ok in H. destruct H as [ms [_ H]]. inversion H; subst s' msgs; clear H.
  cbn [fm_set_last_claimed fm_with fm_positions fm_cfg fm_own fm_pos_counter fm_farm_counter].
  set (P := fun acc : fm_state * list coin =>
              fm_positions (fst acc) = fm_positions (w_fm w) /\ fm_cfg (fst acc) = fm_cfg (w_fm w) /\
              fm_own (fst acc) = fm_own (w_fm w) /\ fm_pos_counter (fst acc) = fm_pos_counter (w_fm w) /\
              fm_farm_counter (fst acc) = fm_farm_counter (w_fm w)).
  assert (HP : P (s1, total)).
  { eapply (foldM_inv P); [| |exact Hf].
    - intros acc lp acc' _ Hstep HPacc. unfold P in *.
      apply bind_ok in Hstep. destruct Hstep as [[rewards modified] [_ Hstep]].
      apply bind_ok in Hstep. destruct Hstep as [farms' [_ Hstep]].
      apply bind_ok in Hstep. destruct Hstep as [s2 [Hs2 Hstep]]. inversion Hstep; subst acc'; clear Hstep.
      apply sync_tables in Hs2. destruct Hs2 as [(T1 & T2 & T3 & T4 & T5 & T6) _].
      cbn [fst fm_set_farms fm_with fm_positions fm_cfg fm_own fm_pos_counter fm_farm_counter] in *.
      destruct HPacc as (A1 & A2 & A3 & A4 & A5). repeat split; congruence.
    - unfold P. cbn. repeat split. }
  exact HP.
Qed.

(* ---------- create / expand / close position ---------- *)
Lemma create_position_spec w sender funds oid dur receiver s' msgs :
  create_position w sender funds oid dur receiver = Ok (s', msgs) ->
  msgs = [] /\
  exists lp recv identifier,
    one_coin funds = Ok lp /\
    fm_min_unlock (fm_cfg (w_fm w)) <= dur <= fm_max_unlock (fm_cfg (w_fm w)) /\
    recv = match receiver with Some r => r | None => sender end /\
    (match receiver with Some r => sender = fm_pool_manager (fm_cfg (w_fm w)) \/ sender = r | None => True end) /\
    identifier = match oid with Some id => ("u-" ++ id)%string | None => ("p-" ++ string_of_Z (fm_pos_counter (w_fm w) + 1))%string end /\
    sfind pos_id identifier (fm_positions (w_fm w)) = None /\
    fm_positions s' = sinsert pos_id {| pos_id := identifier; pos_lp := lp; pos_dur := dur; pos_open := true; pos_exp := None; pos_recv := recv |}
                              (fm_positions (w_fm w)) /\
    fm_farms s' = fm_farms (w_fm w) /\ fm_cfg s' = fm_cfg (w_fm w) /\ fm_own s' = fm_own (w_fm w).
Proof.
  unfold create_position. intros H.
  apply bind_ok in H. destruct H as [lp [Hlp H]].
  apply bind_ok in H. destruct H as [[] [_ H]].
  apply bind_ok in H. destruct H as [[] [Hd H]]. apply ensure_ok in Hd.
  apply bind_ok in H. destruct H as [recv [Hr H]].
  apply bind_ok in H. destruct H as [c [Hc H]].
  destruct (in_range U64_MAX (fm_pos_counter (w_fm w) + 1)); [|discriminate]. inversion Hc; subst c; clear Hc.
  destruct (match oid with Some id => _ | None => _ end) as [identifier s1] eqn:Eid.
  apply bind_ok in H. destruct H as [[] [_ H]].
  apply bind_ok in H. destruct H as [[] [Hfresh H]]. apply ensure_ok in Hfresh.
  apply bind_ok in H. destruct H as [[] [_ H]].
  apply bind_ok in H. destruct H as [s3 [Hs3 H]]. inversion H; subst s' msgs; clear H.
  split; [reflexivity|]. exists lp, recv, identifier.
  apply update_weights_tables in Hs3. destruct Hs3 as [(T1 & T2 & T3 & T4 & T5 & T6) _].
  cbn [fm_set_positions fm_with fm_positions fm_farms fm_cfg fm_own] in *.
  assert (Hs1 : fm_positions s1 = fm_positions (w_fm w) /\ fm_farms s1 = fm_farms (w_fm w) /\ fm_cfg s1 = fm_cfg (w_fm w) /\ fm_own s1 = fm_own (w_fm w) /\
                identifier = match oid with Some id => ("u-" ++ id)%string | None => ("p-" ++ string_of_Z (fm_pos_counter (w_fm w) + 1))%string end).
  { destruct oid; inversion Eid; subst; repeat split. }
  destruct Hs1 as (S1 & S2 & S3 & S4 & S5).
  split; [exact Hlp|]. split; [lia|]. split.
  { destruct receiver as [r|]; [|inversion Hr; reflexivity]. inv_all. reflexivity. }
  split.
  { destruct receiver as [r|]; [|exact I].
    apply bind_ok in Hr. destruct Hr as [[] [_ Hr]]. apply bind_ok in Hr. destruct Hr as [[] [Ho _]].
    apply ensure_ok in Ho. apply orb_true_iff in Ho. destruct Ho as [E|E]; apply String.eqb_eq in E; auto. }
  split; [exact S5|]. split.
  { rewrite <- S1. destruct (sfind pos_id identifier (fm_positions s1)); [discriminate | reflexivity]. }
  rewrite T3, T5, T1, T2, S1, S2, S3, S4. repeat split.
Qed.

Lemma expand_position_spec w sender funds id s' msgs :
  expand_position w sender funds id = Ok (s', msgs) ->
  msgs = [] /\
  exists p lp,
    sfind pos_id id (fm_positions (w_fm w)) = Some p /\ one_coin funds = Ok lp /\
    denom_of lp = denom_of (pos_lp p) /\ pos_open p = true /\
    (pos_recv p = sender \/ sender = fm_pool_manager (fm_cfg (w_fm w))) /\
    fm_positions s' = sinsert pos_id (pos_with p (amount_of (pos_lp p) + amount_of lp) (pos_open p) (pos_exp p)) (fm_positions (w_fm w)) /\
    fm_farms s' = fm_farms (w_fm w) /\ fm_cfg s' = fm_cfg (w_fm w) /\ fm_own s' = fm_own (w_fm w) /\
    fm_pos_counter s' = fm_pos_counter (w_fm w).
Proof.
  unfold expand_position. intros H.
  apply bind_ok in H. destruct H as [p [Hp H]]. apply of_option_ok in Hp.
  apply bind_ok in H. destruct H as [lp [Hlp H]].
  apply bind_ok in H. destruct H as [[] [_ H]].
  apply bind_ok in H. destruct H as [[] [Hd H]]. apply ensure_ok in Hd. apply String.eqb_eq in Hd.
  apply bind_ok in H. destruct H as [[] [Hopen H]]. apply ensure_ok in Hopen.
  apply bind_ok in H. destruct H as [[] [Ho H]]. apply ensure_ok in Ho.
  apply bind_ok in H. destruct H as [a [Ha H]]. unfold cadd in Ha. apply chk_ok in Ha. destruct Ha as [-> _].
  apply bind_ok in H. destruct H as [s2 [Hs2 H]]. inversion H; subst s' msgs; clear H.
  split; [reflexivity|]. exists p, lp.
  apply update_weights_tables in Hs2. destruct Hs2 as [(T1 & T2 & T3 & T4 & T5 & T6) _].
  cbn [fm_set_positions fm_with fm_positions fm_farms fm_cfg fm_own fm_pos_counter] in *.
  rewrite T3, T5, T1, T2, T4. repeat split; auto.
  apply orb_true_iff in Ho. destruct Ho as [E|E]; apply String.eqb_eq in E; auto.
Qed.

Lemma close_position_spec w sender funds id olp s' msgs :
  close_position w sender funds id olp = Ok (s', msgs) ->
  funds = [] /\ msgs = [] /\ query_rewards w (w_fm w) sender None = Ok [] /\
  exists p, sfind pos_id id (fm_positions (w_fm w)) = Some p /\ pos_recv p = sender /\ pos_open p = true /\
    fm_farms s' = fm_farms (w_fm w) /\ fm_cfg s' = fm_cfg (w_fm w) /\ fm_own s' = fm_own (w_fm w) /\
    let amount := amount_of (pos_lp p) in
    let exp := (time (w_block w) + pos_dur p * NANOS) / NANOS in
    ((* closed in full: the position keeps its identifier, owner, amount and duration, and starts unlocking *)
     ((olp = None \/ exists c, olp = Some c /\ denom_of c = denom_of (pos_lp p) /\ amount_of c = amount) /\
      fm_positions s' = sinsert pos_id (pos_with p amount false (Some exp)) (fm_positions (w_fm w)) /\
      fm_pos_counter s' = fm_pos_counter (w_fm w))
     \/
     (* closed in part: a new closed position of [a] is split off, the remainder stays open; old' + new = old *)
     (exists c, olp = Some c /\ denom_of c = denom_of (pos_lp p) /\ amount_of c < amount /\
        let np := {| pos_id := ("p-" ++ string_of_Z (fm_pos_counter (w_fm w) + 1))%string; pos_lp := c; pos_dur := pos_dur p;
                     pos_open := false; pos_exp := Some exp; pos_recv := pos_recv p |} in
        fm_positions s' = sinsert pos_id (pos_with p (ssub amount (amount_of c)) true (pos_exp p))
                            (sinsert pos_id np (fm_positions (w_fm w))) /\
        fm_pos_counter s' = fm_pos_counter (w_fm w) + 1)).
Proof.
  unfold close_position. intros H.
  apply bind_ok in H. destruct H as [[] [Hn H]]. unfold nonpayable in Hn. destruct funds; [|discriminate].
  apply bind_ok in H. destruct H as [pending [Hq H]].
  apply bind_ok in H. destruct H as [[] [Hpe H]]. apply ensure_ok in Hpe.
  assert (pending = []) as -> by (destruct pending; [reflexivity | discriminate]).
  apply bind_ok in H. destruct H as [p [Hp H]]. apply of_option_ok in Hp.
  apply bind_ok in H. destruct H as [[] [Ho H]]. apply ensure_ok in Ho. apply String.eqb_eq in Ho.
  apply bind_ok in H. destruct H as [[] [Hopen H]]. apply ensure_ok in Hopen.
  apply bind_ok in H. destruct H as [exp_ns [Hexp H]].
  apply bind_ok in H. destruct H as [[] [_ H]].
  apply bind_ok in H. destruct H as [[[p' s1] tc] [Hb H]].
  apply bind_ok in H. destruct H as [s2 [Hs2 H]].
  apply bind_ok in H. destruct H as [s4 [Hs4 H]]. inversion H; subst s' msgs; clear H.
  split; [reflexivity|]. split; [reflexivity|]. split; [exact Hq|].
  exists p. split; [exact Hp|]. split; [exact Ho|]. split; [exact Hopen|].
  apply update_weights_tables in Hs2. destruct Hs2 as [(T1 & T2 & T3 & T4 & T5 & T6) _].
  apply reconcile_tables in Hs4. destruct Hs4 as (U1 & U2 & U3 & U4 & U5 & U6).
  cbn [fm_set_positions fm_with fm_positions fm_farms fm_cfg fm_own fm_pos_counter] in *.
  assert (Hexp' : exp_ns = time (w_block w) + pos_dur p * NANOS).
  { unfold ts_plus_seconds in Hexp. destruct (_ && _); inversion Hexp; reflexivity. }
  subst exp_ns.
  destruct olp as [c|].
  - apply bind_ok in Hb. destruct Hb as [[] [Hd Hb]]. apply ensure_ok in Hd. apply String.eqb_eq in Hd.
    destruct (amount_of c =? amount_of (pos_lp p)) eqn:E1.
    + inversion Hb; subst p' s1 tc; clear Hb.
      rewrite U5, T5, U1, T1, U2, T2. repeat split; try reflexivity. cbv zeta. left.
      rewrite U3, T3, U4, T4. repeat split. right. exists c. repeat split; auto; lia.
    + destruct (amount_of c <? amount_of (pos_lp p)) eqn:E2; [|discriminate].
      apply bind_ok in Hb. destruct Hb as [cn [Hcn Hb]].
      destruct (in_range U64_MAX (fm_pos_counter (w_fm w) + 1)); [|discriminate]. inversion Hcn; subst cn; clear Hcn.
      inversion Hb; subst p' s1 tc; clear Hb.
      cbn [fm_set_positions fm_set_pos_counter fm_with fm_positions fm_farms fm_cfg fm_own fm_pos_counter] in *.
      rewrite U5, T5, U1, T1, U2, T2. repeat split; try reflexivity. cbv zeta. right.
      exists c. rewrite U3, T3, U4, T4. repeat split; auto; lia.
  - inversion Hb; subst p' s1 tc; clear Hb.
    rewrite U5, T5, U1, T1, U2, T2. repeat split; try reflexivity. cbv zeta. left.
    rewrite U3, T3, U4, T4. repeat split. left. reflexivity.
Qed.

(* unlock instant = close time + unlocking duration (whole seconds) *)
Lemma expiry_is_close_plus_duration t dur : (t + dur * NANOS) / NANOS = t / NANOS + dur.
Proof. unfold NANOS. apply Z.div_add. lia. Qed.

(* close_farms only removes farms *)
Lemma close_farms_tables fs : forall s acc,
  let r := fold_left (fun acc f =>
               let s0 := fst acc in
               let rem := ssub (amount_of (f_asset f)) (f_claimed f) in
               (fm_set_farms s0 (sremove f_id (f_id f) (fm_farms s0)),
                if 0 <? rem then
                  (snd acc ++ [{| sm_msg := MBankSend (f_owner f) [(denom_of (f_asset f), rem)];
                                  sm_id := CLOSE_FARMS_ERR_REPLY_CODE; sm_reply := RError |}])%list
                else snd acc)) fs (s, acc) in
  fm_positions (fst r) = fm_positions s /\ fm_cfg (fst r) = fm_cfg s /\ fm_own (fst r) = fm_own s /\
  fm_pos_counter (fst r) = fm_pos_counter s /\ fm_farm_counter (fst r) = fm_farm_counter s /\
  fm_weights (fst r) = fm_weights s /\ fm_last_claimed (fst r) = fm_last_claimed s /\
  (forall x, In x (fm_farms (fst r)) -> In x (fm_farms s)).
Proof.
  induction fs as [|f r0 IH]; intros s acc; cbn [fold_left].
  - cbn. repeat split; auto.
  - cbv zeta in IH. specialize (IH (fm_set_farms s (sremove f_id (f_id f) (fm_farms s)))
       (if 0 <? ssub (amount_of (f_asset f)) (f_claimed f)
        then (acc ++ [{| sm_msg := MBankSend (f_owner f) [(denom_of (f_asset f), ssub (amount_of (f_asset f)) (f_claimed f))];
                        sm_id := CLOSE_FARMS_ERR_REPLY_CODE; sm_reply := RError |}])%list else acc)).
    cbn [fst snd]. destruct IH as (A1 & A2 & A3 & A4 & A5 & A6 & A7 & A8).
    cbn [fm_set_farms fm_with fm_positions fm_cfg fm_own fm_pos_counter fm_farm_counter fm_weights fm_last_claimed fm_farms] in *.
    repeat split; auto. intros x Hx. apply A8 in Hx. eapply sremove_in; eauto.
Qed.

Lemma close_farms_positions s fs : fm_positions (fst (close_farms s fs)) = fm_positions s.
Proof. unfold close_farms. apply (close_farms_tables fs s []). Qed.

(* ---------- identifiers: generated "p-<n>" identifiers above the counter are unused ---------- *)
Definition pos_fresh (s : fm_state) : Prop :=
  0 <= fm_pos_counter s /\
  forall k, fm_pos_counter s < k -> sfind pos_id ("p-" ++ string_of_Z k)%string (fm_positions s) = None.

Lemma p_id_inj a b : 0 <= a -> 0 <= b -> ("p-" ++ string_of_Z a = "p-" ++ string_of_Z b)%string -> a = b.
Proof. intros Ha Hb H. cbn in H. inversion H. apply string_of_Z_inj; assumption. Qed.
Lemma u_p_disjoint x k : ("u-" ++ x)%string <> ("p-" ++ string_of_Z k)%string.
Proof. cbn. intros H. inversion H. Qed.

(* ---------- C08 frame: nobody but the owner (or the pool manager, which may only add) changes a position ---------- *)
Lemma fm_execute_positions_frame w sender funds m s' msgs :
  pos_fresh (w_fm w) ->
  fm_execute w sender funds m = Ok (s', msgs) ->
  forall id q, sfind pos_id id (fm_positions (w_fm w)) = Some q ->
    pos_recv q <> sender -> sender <> fm_pool_manager (fm_cfg (w_fm w)) ->
    sfind pos_id id (fm_positions s') = Some q.
Proof.
  intros [Hc0 Hfresh] H id q Hq Hne Hpm.
  destruct m as [p|p|fid|a|u|oid dur r|pid|pid lp|pid e|u]; cbn [fm_execute] in H.
  - unfold create_farm in H.
    apply bind_ok in H. destruct H as [[] [_ H]].
    apply bind_ok in H. destruct H as [ep [_ H]].
    apply bind_ok in H. destruct H as [[expired live] [_ H]].
    pose proof (close_farms_positions (w_fm w) expired) as Hcf.
    destruct (close_farms (w_fm w) expired) as [s1 submsgs]. cbn [fst] in Hcf.
    inv_all; cbn [fm_set_farms fm_set_farm_counter fm_with fm_positions]; rewrite Hcf; exact Hq.
  - unfold expand_farm in H. inv_all. exact Hq.
  - unfold close_farm in H.
    apply bind_ok in H. destruct H as [[] [_ H]].
    apply bind_ok in H. destruct H as [f [_ H]].
    apply bind_ok in H. destruct H as [[] [_ H]]. inversion H; subst. cbn. exact Hq.
  - inv_all. exact Hq.
  - apply claim_tables in H. destruct H as (_ & Hp & _). rewrite Hp. exact Hq.
  - apply create_position_spec in H. destruct H as (_ & lp & recv & identifier & _ & _ & _ & _ & _ & Hfr & Hpos & _).
    rewrite Hpos. rewrite sfind_sinsert_other; [exact Hq|]. cbn. intros C. subst. congruence.
  - apply expand_position_spec in H. destruct H as (_ & p & lp & Hp & _ & _ & _ & Hauth & Hpos & _).
    rewrite Hpos. rewrite sfind_sinsert_other; [exact Hq|]. cbn.
    intros C. subst id. rewrite (sfind_key _ _ _ _ Hp) in Hq. rewrite Hp in Hq. inversion Hq; subst q.
    destruct Hauth; congruence.
  - apply close_position_spec in H. destruct H as (_ & _ & _ & p & Hp & Ho & _ & _ & _ & _ & Hc).
    cbv zeta in Hc.
    assert (Hidne : id <> pos_id p).
    { intros C. subst id. rewrite (sfind_key _ _ _ _ Hp) in Hq. rewrite Hp in Hq. inversion Hq; subst q. congruence. }
    destruct Hc as [(_ & Hpos & _) | (c & _ & _ & _ & Hpos & _)]; rewrite Hpos.
    + rewrite sfind_sinsert_other; [exact Hq | cbn; exact Hidne].
    + rewrite sfind_sinsert_other by (cbn; exact Hidne).
      rewrite sfind_sinsert_other; [exact Hq|]. cbn [pos_id].
      intros C. subst id. rewrite Hfresh in Hq by lia. discriminate.
  - apply withdraw_position_spec in H. destruct H as (_ & p & Hp & Ho & Hpos & _).
    rewrite Hpos. rewrite sfind_sremove_other; [exact Hq|].
    intros C. subst id. rewrite Hp in Hq. inversion Hq; subst q. congruence.
  - apply bind_ok in H. destruct H as [[] [_ H]]. unfold fm_update_config in H. inv_all; exact Hq.
Qed.

(* the freshness invariant is preserved by every farm-manager message *)
Lemma fm_execute_pos_fresh w sender funds m s' msgs :
  pos_fresh (w_fm w) -> fm_execute w sender funds m = Ok (s', msgs) -> pos_fresh s'.
Proof.
  intros [Hc0 Hfresh] H.
  destruct m as [p|p|fid|a|u|oid dur r|pid|pid lp|pid e|u]; cbn [fm_execute] in H.
  - unfold create_farm in H.
    apply bind_ok in H. destruct H as [[] [_ H]].
    apply bind_ok in H. destruct H as [ep [_ H]].
    apply bind_ok in H. destruct H as [[expired live] [_ H]].
    pose proof (close_farms_tables expired (w_fm w) []) as Hcf. cbv zeta in Hcf. fold (close_farms (w_fm w) expired) in Hcf.
    destruct Hcf as (A1 & _ & _ & A4 & _).
    destruct (close_farms (w_fm w) expired) as [s1 submsgs]. cbn [fst] in A1, A4.
    inv_all; split; cbn [fm_set_farms fm_set_farm_counter fm_with fm_positions fm_pos_counter]; rewrite ?A1, ?A4; auto.
  - unfold expand_farm in H. inv_all. split; auto.
  - unfold close_farm in H.
    apply bind_ok in H. destruct H as [[] [_ H]].
    apply bind_ok in H. destruct H as [f [_ H]].
    apply bind_ok in H. destruct H as [[] [_ H]]. inversion H; subst. split; cbn; auto.
  - inv_all. split; auto.
  - apply claim_tables in H. destruct H as (_ & Hp & _ & _ & Hc & _). split; rewrite ?Hp, ?Hc; auto.
  - pose proof H as H0. apply create_position_spec in H. destruct H as (_ & lp & recv & identifier & _ & _ & _ & _ & Hid & Hfr & Hpos & _).
    unfold create_position in H0.
    apply bind_ok in H0. destruct H0 as [lp0 [_ H0]].
    apply bind_ok in H0. destruct H0 as [[] [_ H0]].
    apply bind_ok in H0. destruct H0 as [[] [_ H0]].
    apply bind_ok in H0. destruct H0 as [recv0 [_ H0]].
    apply bind_ok in H0. destruct H0 as [c [Hc H0]].
    destruct (in_range U64_MAX (fm_pos_counter (w_fm w) + 1)); [|discriminate]. inversion Hc; subst c; clear Hc.
    destruct oid as [x|].
    + (* explicit identifier: counter unchanged, "u-" never collides with "p-" *)
      cbn [bind] in H0.
      apply bind_ok in H0. destruct H0 as [[] [_ H0]].
      apply bind_ok in H0. destruct H0 as [[] [_ H0]].
      apply bind_ok in H0. destruct H0 as [[] [_ H0]].
      apply bind_ok in H0. destruct H0 as [s3 [Hs3 H0]]. inversion H0; subst s' msgs.
      apply update_weights_tables in Hs3. destruct Hs3 as [(_ & _ & _ & T4 & _) _].
      cbn [fm_set_positions fm_with fm_pos_counter] in T4.
      split; [rewrite T4; exact Hc0|]. intros k Hk. rewrite T4 in Hk. rewrite Hpos.
      rewrite sfind_sinsert_other; [apply Hfresh; exact Hk|]. cbn [pos_id]. subst identifier.
      intros C. symmetry in C. revert C. apply u_p_disjoint.
    + cbn [bind] in H0.
      apply bind_ok in H0. destruct H0 as [[] [_ H0]].
      apply bind_ok in H0. destruct H0 as [[] [_ H0]].
      apply bind_ok in H0. destruct H0 as [[] [_ H0]].
      apply bind_ok in H0. destruct H0 as [s3 [Hs3 H0]]. inversion H0; subst s' msgs.
      apply update_weights_tables in Hs3. destruct Hs3 as [(_ & _ & _ & T4 & _) _].
      cbn [fm_set_positions fm_set_pos_counter fm_with fm_pos_counter] in T4.
      split; [rewrite T4; lia|]. intros k Hk. rewrite T4 in Hk. rewrite Hpos.
      rewrite sfind_sinsert_other; [apply Hfresh; lia|]. cbn [pos_id]. subst identifier.
      intros C. apply p_id_inj in C; lia.
  - apply expand_position_spec in H. destruct H as (_ & p & lp & Hp & _ & _ & _ & _ & Hpos & _ & _ & _ & Hc).
    split; [rewrite Hc; exact Hc0|]. intros k Hk. rewrite Hc in Hk. rewrite Hpos.
    destruct (String.eqb ("p-" ++ string_of_Z k) (pos_id p)) eqn:E.
    + apply String.eqb_eq in E. rewrite (sfind_key _ _ _ _ Hp) in E. subst pid. rewrite Hfresh in Hp by exact Hk. discriminate.
    + apply String.eqb_neq in E. rewrite sfind_sinsert_other by (cbn; exact E). apply Hfresh. exact Hk.
  - apply close_position_spec in H. destruct H as (_ & _ & _ & p & Hp & _ & _ & _ & _ & _ & Hc). cbv zeta in Hc.
    assert (Hpk : forall k, fm_pos_counter (w_fm w) < k -> ("p-" ++ string_of_Z k)%string <> pos_id p).
    { intros k Hk C. rewrite (sfind_key _ _ _ _ Hp) in C. subst pid. rewrite Hfresh in Hp by exact Hk. discriminate. }
    destruct Hc as [(_ & Hpos & Hcnt) | (c & _ & _ & _ & Hpos & Hcnt)].
    + split; [rewrite Hcnt; exact Hc0|]. intros k Hk. rewrite Hcnt in Hk. rewrite Hpos.
      rewrite sfind_sinsert_other by (cbn; apply Hpk; exact Hk). apply Hfresh. exact Hk.
    + split; [rewrite Hcnt; lia|]. intros k Hk. rewrite Hcnt in Hk. rewrite Hpos.
      rewrite sfind_sinsert_other by (cbn; apply Hpk; lia).
      rewrite sfind_sinsert_other; [apply Hfresh; lia|]. cbn [pos_id]. intros C. apply p_id_inj in C; lia.
  - apply withdraw_position_spec in H. destruct H as (_ & p & Hp & _ & Hpos & _ & _ & _ & Hcnt & _).
    split; [rewrite Hcnt; exact Hc0|]. intros k Hk. rewrite Hcnt in Hk. rewrite Hpos.
    destruct (String.eqb ("p-" ++ string_of_Z k) pid) eqn:E.
    + apply String.eqb_eq in E. subst pid. rewrite Hfresh in Hp by exact Hk. discriminate.
    + apply String.eqb_neq in E. rewrite sfind_sremove_other by exact E. apply Hfresh. exact Hk.
  - apply bind_ok in H. destruct H as [[] [_ H]]. unfold fm_update_config in H. inv_all; split; auto.
Qed.

(* ---------- C08: a normal withdrawal succeeds IFF owner, no funds, closed, unlock instant reached ---------- *)
Lemma withdraw_normal_iff w sender funds id em p e :
  sfind pos_id id (fm_positions (w_fm w)) = Some p -> pos_open p = false -> pos_exp p = Some e ->
  em <> Some true ->
  ((exists s' msgs, withdraw_position w sender funds id em = Ok (s', msgs)) <->
   (funds = [] /\ pos_recv p = sender /\ e <= seconds (w_block w))).
Proof.
  intros Hp Hopen Hexp Hem. split.
  - intros (s' & msgs & H). apply withdraw_position_spec in H.
    destruct H as (Hf & p' & Hp' & Ho & _ & _ & _ & _ & _ & Hcase). rewrite Hp in Hp'. inversion Hp'; subst p'.
    cbv zeta in Hcase. destruct Hcase as [(_ & (e' & He' & Hle) & _) | (C & _)]; [|congruence].
    rewrite Hexp in He'. inversion He'; subst. auto.
  - intros (-> & Ho & Hle). unfold withdraw_position. cbn [nonpayable bind]. rewrite Hp. cbn [of_option bind].
    rewrite Ho, String.eqb_refl. cbn [ensure bind].
    assert (Eb : (match em with Some true => true | _ => false end) = false) by (destruct em as [[|]|]; congruence).
    rewrite Eb. cbn [andb]. rewrite Hexp. cbn [ensure bind]. unfold position_is_expired. rewrite Hexp.
    replace (e <=? seconds (w_block w)) with true by lia. cbn [ensure bind].
    rewrite Hopen. cbn [bind]. eauto.
Qed.

(* ---------- farms (C11) ---------- *)
Lemma validate_farm_epochs_spec p cur buffer st en :
  validate_farm_epochs p cur buffer = Ok (st, en) ->
  st = match fp_start p with Some e => e | None => cur + 1 end /\
  (match fp_end p with Some e => en = e | None => en = st + DEFAULT_FARM_DURATION end) /\
  cur < st /\ st < en /\ st <= cur + buffer.
Proof.
  unfold validate_farm_epochs. intros H.
  apply bind_ok in H. destruct H as [s0 [Hs H]].
  apply bind_ok in H. destruct H as [[] [H1 H]]. apply ensure_ok in H1.
  apply bind_ok in H. destruct H as [dflt [Hd H]].
  apply bind_ok in H. destruct H as [[] [H2 H]]. apply ensure_ok in H2.
  apply bind_ok in H. destruct H as [[] [H3 H]]. apply ensure_ok in H3.
  apply bind_ok in H. destruct H as [lim [Hl H]]. unfold cadd in Hl. apply chk_ok in Hl. destruct Hl as [-> _].
  apply bind_ok in H. destruct H as [[] [H4 H]]. apply ensure_ok in H4. inversion H; subst st en; clear H.
  assert (Es : s0 = match fp_start p with Some e => e | None => cur + 1 end).
  { destruct (fp_start p); [inversion Hs; reflexivity|]. destruct (in_range U64_MAX (cur + 1)); inversion Hs; reflexivity. }
  assert (Ed : dflt = s0 + DEFAULT_FARM_DURATION) by (destruct (in_range U64_MAX (s0 + DEFAULT_FARM_DURATION)); inversion Hd; reflexivity).
  split; [exact Es|]. split; [destruct (fp_end p); [reflexivity | exact Ed]|]. lia.
Qed.

Lemma create_farm_spec w sender funds p s' msgs :
  create_farm w sender funds p = Ok (s', msgs) ->
  exists ep (expired live : list farm) fee_msgs st en identifier,
    q_current_epoch w (fm_epoch_manager (fm_cfg (w_fm w))) = Ok ep /\
    (* the farms of this LP token split into expired ones (swept and refunded) and live ones (below the limit) *)
    Z.of_nat (List.length live) < fm_max_farms (fm_cfg (w_fm w)) /\
    (forall f, In f expired -> In f (farms_by_lp (w_fm w) (fp_lp p) (fm_max_farms (fm_cfg (w_fm w))))) /\
    MIN_FARM_AMOUNT <= amount_of (fp_asset p) /\
    (if negb (amount_of (fm_create_fee (fm_cfg (w_fm w))) =? 0)
     then process_farm_creation_fee (fm_cfg (w_fm w)) sender funds (fp_asset p) = Ok fee_msgs else fee_msgs = []) /\
    assert_farm_asset funds (fm_create_fee (fm_cfg (w_fm w))) (fp_asset p) = Ok tt /\
    validate_farm_epochs p (ep_id ep) (fm_epoch_buffer (fm_cfg (w_fm w))) = Ok (st, en) /\
    identifier = match fp_id p with Some id => ("m-" ++ id)%string
                 | None => ("f-" ++ string_of_Z (fm_farm_counter (w_fm w) + 1))%string end /\
    sfind f_id identifier (fm_farms (fst (close_farms (w_fm w) expired))) = None /\
    fm_farms s' = sinsert f_id {| f_id := identifier; f_owner := sender; f_lp := fp_lp p; f_asset := fp_asset p; f_claimed := 0;
                                  f_rate := amount_of (fp_asset p) / (en - st); f_start := st; f_end := en |}
                          (fm_farms (fst (close_farms (w_fm w) expired))) /\
    fm_positions s' = fm_positions (w_fm w) /\ fm_cfg s' = fm_cfg (w_fm w) /\ fm_own s' = fm_own (w_fm w) /\
    fm_weights s' = fm_weights (w_fm w) /\ fm_last_claimed s' = fm_last_claimed (w_fm w) /\
    msgs = (fee_msgs ++ snd (close_farms (w_fm w) expired))%list.
Proof.
  unfold create_farm. intros H.
  apply bind_ok in H. destruct H as [[] [_ H]].
  apply bind_ok in H. destruct H as [ep [Hep H]].
  apply bind_ok in H. destruct H as [[expired live] [Hpart H]].
  pose proof (close_farms_tables expired (w_fm w) []) as Hcf. cbv zeta in Hcf. fold (close_farms (w_fm w) expired) in Hcf.
  destruct Hcf as (A1 & A2 & A3 & A4 & A5 & A6 & A7 & _).
  destruct (close_farms (w_fm w) expired) as [s1 submsgs] eqn:Ecf. cbn [fst snd] in *.
  apply bind_ok in H. destruct H as [[] [Hlim H]]. apply ensure_ok in Hlim.
  apply bind_ok in H. destruct H as [[] [Hmin H]]. apply ensure_ok in Hmin.
  apply bind_ok in H. destruct H as [fmsgs [Hfee H]].
  apply bind_ok in H. destruct H as [[] [Hasset H]].
  apply bind_ok in H. destruct H as [[st en] [Hep2 H]].
  apply bind_ok in H. destruct H as [[identifier s2] [Hid H]].
  apply bind_ok in H. destruct H as [[] [_ H]].
  apply bind_ok in H. destruct H as [[] [Hfr H]]. apply ensure_ok in Hfr.
  apply bind_ok in H. destruct H as [rate [Hrate H]]. inversion H; subst s' msgs; clear H.
  pose proof (validate_farm_epochs_spec _ _ _ _ _ Hep2) as (_ & _ & _ & Hlt & _).
  apply cdiv_ok in Hrate. destruct Hrate as [_ ->]. unfold ssub. replace (Z.max 0 (en - st)) with (en - st) by lia.
  assert (Hs2 : fm_farms s2 = fm_farms s1 /\ fm_positions s2 = fm_positions s1 /\ fm_cfg s2 = fm_cfg s1 /\ fm_own s2 = fm_own s1 /\
                fm_weights s2 = fm_weights s1 /\ fm_last_claimed s2 = fm_last_claimed s1 /\
                identifier = match fp_id p with Some id => ("m-" ++ id)%string
                             | None => ("f-" ++ string_of_Z (fm_farm_counter (w_fm w) + 1))%string end).
  { destruct (fp_id p).
    - inversion Hid; subst. repeat split.
    - apply bind_ok in Hid. destruct Hid as [c [Hc Hid]]. rewrite A5 in Hc.
      destruct (in_range U64_MAX (fm_farm_counter (w_fm w) + 1)); [|discriminate]. inversion Hc; subst c.
      inversion Hid; subst. repeat split. }
  destruct Hs2 as (S1 & S2 & S3 & S4 & S5 & S6 & S7).
  exists ep, expired, live, fmsgs, st, en, identifier. rewrite !Ecf. cbn [fst snd].
  cbn [fm_set_farms fm_with fm_farms fm_positions fm_cfg fm_own fm_weights fm_last_claimed].
  split; [exact Hep|]. split; [lia|]. split.
  { (* expired farms come from the fetched list *)
    clear - Hpart. revert Hpart. generalize (farms_by_lp (w_fm w) (fp_lp p) (fm_max_farms (fm_cfg (w_fm w)))) as l.
    intros l Hpart f Hin.
    assert (G : forall l acc r, foldM (fun acc f => let* ex := unwrap_or (is_farm_expired w (fm_cfg (w_fm w)) f) false in
                     Ok (if ex then ((fst acc ++ [f])%list, snd acc) else (fst acc, (snd acc ++ [f])%list))) l acc = Ok r ->
                   forall x, In x (fst r) -> In x (fst acc) \/ In x l).
    { induction l0 as [|y ys IH]; intros acc r Hf x Hx; cbn [foldM] in Hf.
      - inversion Hf; subst. auto.
      - apply bind_ok in Hf. destruct Hf as [acc' [Hs Hf]]. apply bind_ok in Hs. destruct Hs as [ex [_ Hs]].
        destruct (IH _ _ Hf x Hx) as [Hi|Hi]; [|right; right; exact Hi].
        inversion Hs; subst acc'. destruct ex; cbn [fst] in Hi; [|auto].
        apply in_app_iff in Hi. destruct Hi as [Hi|[->|[]]]; [auto | right; left; reflexivity]. }
    destruct (G _ _ _ Hpart f Hin) as [[]|Hi]. exact Hi. }
  split; [unfold MIN_FARM_AMOUNT in *; lia|]. split.
  { destruct (negb (amount_of (fm_create_fee (fm_cfg (w_fm w))) =? 0)); [exact Hfee | inversion Hfee; reflexivity]. }
  split; [exact Hasset|]. split; [exact Hep2|]. split; [exact S7|]. split.
  { rewrite <- S1. destruct (sfind f_id identifier (fm_farms s2)); [discriminate | reflexivity]. }
  rewrite S1, S2, S3, S4, S5, S6, A1, A2, A3, A6, A7. repeat split.
Qed.

Lemma expand_farm_spec w sender funds p s' msgs :
  expand_farm w sender funds p = Ok (s', msgs) ->
  msgs = [] /\
  exists id f ep reward,
    fp_id p = Some id /\ sfind f_id id (fm_farms (w_fm w)) = Some f /\ f_owner f = sender /\
    q_current_epoch w (fm_epoch_manager (fm_cfg (w_fm w))) = Ok ep /\ ep_id ep < f_end f /\
    is_farm_expired w (fm_cfg (w_fm w)) f = Ok false /\
    one_coin funds = Ok reward /\ reward = fp_asset p /\ denom_of (f_asset f) = denom_of reward /\
    f_rate f <> 0 /\ amount_of reward mod f_rate f = 0 /\
    fm_farms s' = sinsert f_id {| f_id := f_id f; f_owner := f_owner f; f_lp := f_lp f;
                                  f_asset := (denom_of (f_asset f), amount_of (f_asset f) + amount_of reward);
                                  f_claimed := f_claimed f; f_rate := f_rate f; f_start := f_start f;
                                  f_end := f_end f + amount_of reward / f_rate f |} (fm_farms (w_fm w)) /\
    fm_positions s' = fm_positions (w_fm w) /\ fm_cfg s' = fm_cfg (w_fm w) /\ fm_weights s' = fm_weights (w_fm w).
Proof.
  unfold expand_farm. intros H.
  apply bind_ok in H. destruct H as [id [Hid H]]. apply of_option_ok in Hid.
  apply bind_ok in H. destruct H as [f [Hf H]]. apply of_option_ok in Hf.
  apply bind_ok in H. destruct H as [[] [Ho H]]. apply ensure_ok in Ho. apply String.eqb_eq in Ho.
  apply bind_ok in H. destruct H as [ep [Hep H]].
  apply bind_ok in H. destruct H as [[] [Hend H]]. apply ensure_ok in Hend.
  apply bind_ok in H. destruct H as [ex [Hex H]].
  apply bind_ok in H. destruct H as [[] [Hnex H]]. apply ensure_ok in Hnex.
  apply bind_ok in H. destruct H as [[] [_ H]].
  apply bind_ok in H. destruct H as [reward [Hrw H]].
  apply bind_ok in H. destruct H as [[] [Heq H]]. apply ensure_ok in Heq.
  apply bind_ok in H. destruct H as [[] [Hden H]]. apply ensure_ok in Hden. apply String.eqb_eq in Hden.
  apply bind_ok in H. destruct H as [[] [Hmod H]].
  destruct (f_rate f =? 0) eqn:Er; [discriminate|]. apply ensure_ok in Hmod.
  apply bind_ok in H. destruct H as [a [Ha H]]. unfold cadd in Ha. apply chk_ok in Ha. destruct Ha as [-> _].
  apply bind_ok in H. destruct H as [extra [Hx H]]. apply cdiv_ok in Hx. destruct Hx as [_ ->].
  apply bind_ok in H. destruct H as [e64 [Hx64 H]]. apply chk_ok in Hx64. destruct Hx64 as [-> _].
  apply bind_ok in H. destruct H as [e' [He' H]].
  destruct (in_range U64_MAX (f_end f + amount_of (fp_asset p) / f_rate f)); [|discriminate]. inversion He'; subst e'.
  inversion H; subst s' msgs; clear H.
  apply andb_true_iff in Heq. destruct Heq as [Hd Hamt]. apply String.eqb_eq in Hd.
  assert (reward = fp_asset p) as -> by (destruct reward, (fp_asset p); unfold denom_of, amount_of in *; cbn in *; f_equal; [exact Hd | lia]).
  split; [reflexivity|]. exists id, f, ep, (fp_asset p).
  assert (ex = false) as -> by (destruct ex; [discriminate | reflexivity]).
  cbn [fm_set_farms fm_with fm_farms fm_positions fm_cfg fm_weights].
  repeat split; auto; try lia.
Qed.

Lemma close_farm_spec w sender funds id s' msgs :
  close_farm w sender funds id = Ok (s', msgs) ->
  funds = [] /\ exists f, sfind f_id id (fm_farms (w_fm w)) = Some f /\
    (f_owner f = sender \/ owner (fm_own (w_fm w)) = Some sender) /\
    s' = fm_set_farms (w_fm w) (sremove f_id (f_id f) (fm_farms (w_fm w))) /\
    let rem := ssub (amount_of (f_asset f)) (f_claimed f) in
    msgs = (if 0 <? rem then [{| sm_msg := MBankSend (f_owner f) [(denom_of (f_asset f), rem)];
                                 sm_id := CLOSE_FARMS_ERR_REPLY_CODE; sm_reply := RError |}] else []).
Proof.
  unfold close_farm. intros H.
  apply bind_ok in H. destruct H as [[] [Hn H]]. unfold nonpayable in Hn. destruct funds; [|discriminate].
  apply bind_ok in H. destruct H as [f [Hf H]]. apply of_option_ok in Hf.
  apply bind_ok in H. destruct H as [[] [Ho H]]. apply ensure_ok in Ho.
  split; [reflexivity|]. exists f. split; [exact Hf|]. split.
  { apply orb_true_iff in Ho. destruct Ho as [Ho|Ho]; [left; apply String.eqb_eq in Ho; exact Ho|].
    right. unfold is_owner in Ho. destruct (owner (fm_own (w_fm w))) as [x|]; [|discriminate].
    apply String.eqb_eq in Ho. congruence. }
  unfold close_farms in H. cbn [fold_left fst snd app] in H. inversion H; subst. split; reflexivity.
Qed.

(* what must be attached to create a farm, and what is sent on: the creation fee goes to the fee collector,
   any overpayment of the fee is refunded, the reward amount stays as the farm's budget *)
Lemma farm_creation_funds cfg sender funds asset fee_msgs :
  let fee := fm_create_fee cfg in
  0 <= amount_of fee -> 0 <= amount_of asset ->
  assert_farm_asset funds fee asset = Ok tt ->
  (if negb (amount_of fee =? 0) then process_farm_creation_fee cfg sender funds asset = Ok fee_msgs else fee_msgs = []) ->
  (denom_of fee = denom_of asset /\
   (exists d, funds = [(d, amount_of asset + amount_of fee)] /\ d = denom_of asset) /\
   fee_msgs = (if 0 <? amount_of fee then [plain (MBankSend (fm_fee_collector cfg) [fee])] else []))
  \/
  (denom_of fee <> denom_of asset /\ List.length funds = (if (amount_of fee =? 0)%Z then 1%nat else 2%nat) /\
   (exists sent, find (fun c => String.eqb (denom_of c) (denom_of asset)) funds = Some sent /\ amount_of sent = amount_of asset) /\
   (amount_of fee = 0 -> fee_msgs = [] /\ exists d, funds = [(d, amount_of asset)] /\ d = denom_of asset) /\
   (0 < amount_of fee ->
      exists paidc, find (fun c => String.eqb (denom_of c) (denom_of fee)) funds = Some paidc /\
        amount_of fee <= amount_of paidc /\
        fee_msgs = ((if amount_of paidc =? amount_of fee then []
                     else [plain (MBankSend sender [(denom_of fee, amount_of paidc - amount_of fee)])]) ++
                    [plain (MBankSend (fm_fee_collector cfg) [fee])])%list)).
Proof.
  intros fee Hfee0 Hasset0 Ha Hf. unfold assert_farm_asset in Ha.
  apply bind_ok in Ha. destruct Ha as [sent [Hsent Ha]]. apply of_option_ok in Hsent.
  destruct (String.eqb (denom_of fee) (denom_of asset)) eqn:Ed; cbn [negb] in Ha.
  - apply String.eqb_eq in Ed. left. split; [exact Ed|].
    apply bind_ok in Ha. destruct Ha as [t [Ht Ha]]. unfold cadd in Ht. apply chk_ok in Ht. destruct Ht as [-> Htr].
    apply bind_ok in Ha. destruct Ha as [[] [Hamt Ha]]. apply ensure_ok in Hamt. apply ensure_ok in Ha.
    destruct funds as [|c [|c2 r]]; try discriminate.
    cbn [find] in Hsent. destruct (String.eqb (denom_of c) (denom_of asset)) eqn:Ec; [|discriminate].
    inversion Hsent; subst sent. apply String.eqb_eq in Ec.
    split.
    { exists (denom_of c). split; [|exact Ec]. destruct c as [d a]. unfold denom_of, amount_of in *. cbn in *. f_equal. f_equal. lia. }
    destruct (amount_of fee =? 0) eqn:E0; cbn [negb] in Hf.
    + subst fee_msgs. replace (0 <? amount_of fee) with false by lia. reflexivity.
    + unfold process_farm_creation_fee in Hf. fold fee in Hf. cbn [find] in Hf.
      rewrite <- Ed in Ec. rewrite Ec, String.eqb_refl in Hf. cbn [of_option bind] in Hf.
      replace (0 <? amount_of fee) with true in * by lia.
      destruct (amount_of c =? amount_of fee) eqn:E1; [cbn [bind app] in Hf; inversion Hf; reflexivity|].
      replace (amount_of c <? amount_of fee) with false in Hf by lia.
      rewrite Ed, String.eqb_refl in Hf. unfold cadd in Hf.
      rewrite chk_ok_intro in Hf by lia. cbn [bind] in Hf.
      replace (amount_of asset + amount_of fee =? amount_of c) with true in Hf by lia. cbn [ensure bind app] in Hf.
      inversion Hf; subst. reflexivity.
  - apply String.eqb_neq in Ed. right. split; [exact Ed|].
    apply bind_ok in Ha. destruct Ha as [[] [Hamt Ha]]. apply ensure_ok in Hamt. apply ensure_ok in Ha.
    split; [apply Nat.eqb_eq; exact Ha|]. split; [exists sent; split; [exact Hsent | lia]|].
    destruct (amount_of fee =? 0) eqn:E0; cbn [negb] in Hf.
    + split; [|intros C; lia]. intros _. split; [exact Hf|].
      destruct funds as [|c [|c2 r]]; try discriminate.
      cbn [find] in Hsent. destruct (String.eqb (denom_of c) (denom_of asset)) eqn:Ec; [|discriminate].
      inversion Hsent; subst sent. apply String.eqb_eq in Ec. exists (denom_of c). split; [|exact Ec].
      destruct c as [d a]. unfold denom_of, amount_of in *. cbn in *. f_equal. f_equal. lia.
    + split; [intros C; lia|]. intros _. unfold process_farm_creation_fee in Hf. fold fee in Hf.
      apply bind_ok in Hf. destruct Hf as [paidc [Hp Hf]]. apply of_option_ok in Hp.
      apply bind_ok in Hf. destruct Hf as [refund [Hr Hf]].
      exists paidc. split; [exact Hp|].
      replace (0 <? amount_of fee) with true in Hf by lia.
      destruct (amount_of paidc =? amount_of fee) eqn:E1.
      * inversion Hr; subst refund. inversion Hf; subst. split; [lia | reflexivity].
      * destruct (amount_of paidc <? amount_of fee) eqn:E2; [discriminate|].
        assert (String.eqb (denom_of fee) (denom_of asset) = false) as Ed' by (apply String.eqb_neq; exact Ed).
        rewrite Ed' in Hr. inversion Hr; subst refund. inversion Hf; subst. split; [lia|].
        unfold ssub. replace (Z.max 0 (amount_of paidc - amount_of fee)) with (amount_of paidc - amount_of fee) by lia. reflexivity.
Qed.
