(* FarmsSafe.v — C11 over histories: whatever OTHER people do, they cannot create a farm in somebody's name, expand or
   otherwise alter one of his farms. Through any history of operations none of which is signed by o (a user address),
   every farm owned by o in the final world was already there at the start, with the same identifier, LP denom, reward
   denom and BUDGET, rate, start and end; the only thing that may have moved is the amount already claimed, upwards
   (claims by stakers). A farm of o may disappear (closed by the contract owner or swept on expiry - refund to o,
   C11_close_farm / C11_auto_close_refunds_owner), but nothing else can happen to it. *)
From MD.Model Require Import Base Ownable Epoch PoolMath Types PoolManager FarmManager Chain.
From MD.Proofs Require Import Tactics MapLemmas PoolMathProofs ChainProofs WeightProofs FarmProofs FarmChainProofs RewardProofs
  FarmCustody AuthProofs PositionsSafe.

Definition farm_le (f f' : farm) : Prop :=
  f_id f' = f_id f /\ f_owner f' = f_owner f /\ f_lp f' = f_lp f /\ f_asset f' = f_asset f /\
  f_rate f' = f_rate f /\ f_start f' = f_start f /\ f_end f' = f_end f /\ f_claimed f <= f_claimed f'.

Lemma farm_le_refl f : farm_le f f.
Proof. unfold farm_le. repeat split; lia. Qed.
Lemma farm_le_trans a b c : farm_le a b -> farm_le b c -> farm_le a c.
Proof. unfold farm_le. intuition (try congruence; try lia). Qed.

(* farms of [fs'] come from farms of [fs] *)
Definition farms_from (fs fs' : list farm) : Prop :=
  forall id f', sfind f_id id fs' = Some f' -> exists f, sfind f_id id fs = Some f /\ farm_le f f'.

Lemma farms_from_refl fs : farms_from fs fs.
Proof. intros id f' H. exists f'. split; [exact H | apply farm_le_refl]. Qed.
Lemma farms_from_trans a b c : farms_from a b -> farms_from b c -> farms_from a c.
Proof.
  intros H1 H2 id f' Hc. destruct (H2 _ _ Hc) as (fb & Hb & L2). destruct (H1 _ _ Hb) as (fa & Ha & L1).
  exists fa. split; [exact Ha | eapply farm_le_trans; eauto].
Qed.

Lemma sfind_notin k (l : list farm) : ~ In k (map f_id l) -> sfind f_id k l = None.
Proof.
  induction l as [|y r IH]; cbn; [reflexivity|]. intros H.
  destruct (String.eqb k (f_id y)) eqn:E.
  - apply String.eqb_eq in E. exfalso. apply H. left. auto.
  - apply IH. intros C. apply H. right. exact C.
Qed.

Lemma sfind_sremove_same_nodup k (l : list farm) : NoDup (map f_id l) -> sfind f_id k (sremove f_id k l) = None.
Proof.
  induction l as [|y r IH]; cbn; [reflexivity|]. intros Hnd. inversion Hnd as [|x xs Hx Hr]; subst.
  destruct (String.eqb k (f_id y)) eqn:E.
  - apply String.eqb_eq in E. subst k. apply sfind_notin. exact Hx.
  - cbn. rewrite E. apply IH. exact Hr.
Qed.

Lemma sfind_sremove_some k id (l : list farm) x :
  NoDup (map f_id l) -> sfind f_id id (sremove f_id k l) = Some x -> sfind f_id id l = Some x.
Proof.
  intros Hnd. destruct (String.eqb id k) eqn:E.
  - apply String.eqb_eq in E. subst. rewrite sfind_sremove_same_nodup by exact Hnd. discriminate.
  - apply String.eqb_neq in E. rewrite (sfind_sremove_other f_id) by exact E. auto.
Qed.

Lemma close_farms_from fs : forall s acc id x,
  NoDup (map f_id (fm_farms s)) ->
  sfind f_id id (fm_farms (fst (fold_left (fun acc f =>
               let s0 := fst acc in
               let rem := ssub (amount_of (f_asset f)) (f_claimed f) in
               (fm_set_farms s0 (sremove f_id (f_id f) (fm_farms s0)),
                if 0 <? rem then
                  (snd acc ++ [{| sm_msg := MBankSend (f_owner f) [(denom_of (f_asset f), rem)];
                                  sm_id := CLOSE_FARMS_ERR_REPLY_CODE; sm_reply := RError |}])%list
                else snd acc)) fs (s, acc)))) = Some x ->
  sfind f_id id (fm_farms s) = Some x.
Proof.
  induction fs as [|f r IH]; intros s acc id x Hnd H; cbn [fold_left] in H; [exact H|].
  apply IH in H.
  - cbn [fst fm_set_farms fm_with fm_farms] in H. eapply sfind_sremove_some; eauto.
  - cbn [fst fm_set_farms fm_with fm_farms]. apply NoDup_sremove. exact Hnd.
Qed.

(* a claim only raises claimed amounts *)
Lemma claim_farms_from w sender funds until s' msgs :
  claim w sender funds until = Ok (s', msgs) -> farms_from (fm_farms (w_fm w)) (fm_farms s').
Proof.
  intros H. unfold claim in H.
  apply bind_ok in H. destruct H as [[] [_ H]].
  apply bind_ok in H. destruct H as [[] [_ H]].
  apply bind_ok in H. destruct H as [ep [_ H]].
  apply bind_ok in H. destruct H as [u [_ H]].
  apply bind_ok in H. destruct H as [[s1 total] [Hf H]].
  apply bind_ok in H. destruct H as [ms [_ H]]. inversion H; subst s' msgs; clear H.
  cbn [fm_set_last_claimed fm_with fm_farms].
  set (P := fun acc : fm_state * list coin => farms_from (fm_farms (w_fm w)) (fm_farms (fst acc))).
  assert (HP : P (s1, total)).
  { eapply (foldM_inv P); [| |exact Hf].
    - intros acc lp acc' _ Hstep HPacc. unfold P in *. cbv beta in Hstep.
      apply bind_ok in Hstep. destruct Hstep as [[rewards modified] [Hcr Hstep]].
      apply bind_ok in Hstep. destruct Hstep as [farms' [Hupd Hstep]].
      apply bind_ok in Hstep. destruct Hstep as [s2 [Hs2 Hstep]]. inversion Hstep; subst acc'; clear Hstep.
      apply sync_tables in Hs2. destruct Hs2 as [(_ & _ & _ & _ & T5 & _) _].
      cbn [fm_set_farms fm_with fm_farms] in T5. cbn [fst]. rewrite T5.
      destruct (calculate_rewards_spec _ _ _ _ _ _ Hcr) as (pairs & Hm & Hin & _ & _).
      eapply farms_from_trans; [exact HPacc|].
      intros id f' Hf'.
      assert (Hnn : Forall (fun m => 0 <= snd m) modified).
      { subst modified. apply Forall_forall. intros m Hm. apply in_map_iff in Hm. destruct Hm as (ft & <- & Hft).
        destruct (Hin ft Hft) as [_ Hz]. destruct ft; cbn in *. exact Hz. }
      destruct (claim_farm_update_bounded _ _ _ Hupd Hnn id f' Hf') as (f & [[Hs Hb] | [Hs ->]]).
      + exists f. split; [exact Hs|]. unfold farm_same_but_claimed in Hb. unfold farm_le. intuition.
      + exists f'. split; [exact Hs | apply farm_le_refl].
    - unfold P. cbn [fst]. apply farms_from_refl. }
  exact HP.
Qed.

(* one farm-manager message from anybody but o: every farm of o afterwards was a farm of o before, unchanged but for
   a larger claimed amount *)
Lemma fm_execute_farms_of w sender funds m s' msgs o :
  NoDup (map f_id (fm_farms (w_fm w))) ->
  fm_execute w sender funds m = Ok (s', msgs) -> sender <> o ->
  forall id f', sfind f_id id (fm_farms s') = Some f' -> f_owner f' = o ->
    exists f, sfind f_id id (fm_farms (w_fm w)) = Some f /\ farm_le f f'.
Proof.
  intros Hnd H Hs id f' Hf' Ho.
  assert (Hsame : fm_farms s' = fm_farms (w_fm w) -> exists f, sfind f_id id (fm_farms (w_fm w)) = Some f /\ farm_le f f').
  { intros E. rewrite E in Hf'. exists f'. split; [exact Hf' | apply farm_le_refl]. }
  destruct m as [p|p|fid|a|u|oid dur r|pid|pid lp|pid e|u]; cbn [fm_execute] in H.
  - apply create_farm_spec in H.
    destruct H as (ep & expired & live & fee_msgs & st & en & identifier & _ & _ & _ & _ & _ & _ & _ & _ & _ & Hfarms & _).
    rewrite Hfarms in Hf'. destruct (String.eqb id identifier) eqn:E.
    + apply String.eqb_eq in E. subst id.
      match type of Hf' with sfind _ _ (sinsert _ ?g _) = _ => change identifier with (f_id g) in Hf' at 1; rewrite (sfind_sinsert_same f_id g) in Hf' end.
      inversion Hf'; subst f'. cbn in Ho. congruence.
    + apply String.eqb_neq in E. rewrite (sfind_sinsert_other f_id) in Hf' by (cbn; exact E).
      unfold close_farms in Hf'. apply close_farms_from in Hf'; [|exact Hnd].
      exists f'. split; [exact Hf' | apply farm_le_refl].
  - apply expand_farm_spec in H.
    destruct H as (_ & fid & f & ep & reward & _ & Hf & Hown & _ & _ & _ & _ & _ & _ & _ & _ & Hfarms & _).
    rewrite Hfarms in Hf'. destruct (String.eqb id (f_id f)) eqn:E.
    + apply String.eqb_eq in E. subst id.
      match type of Hf' with sfind _ _ (sinsert _ ?g _) = _ => change (f_id f) with (f_id g) in Hf' at 1; rewrite (sfind_sinsert_same f_id g) in Hf' end.
      inversion Hf'; subst f'. cbn in Ho. congruence.
    + apply String.eqb_neq in E. rewrite (sfind_sinsert_other f_id) in Hf' by (cbn; exact E).
      exists f'. split; [exact Hf' | apply farm_le_refl].
  - apply close_farm_spec in H. destruct H as (_ & f & _ & _ & -> & _).
    cbn [fm_set_farms fm_with fm_farms] in Hf'. apply sfind_sremove_some in Hf'; [|exact Hnd].
    exists f'. split; [exact Hf' | apply farm_le_refl].
  - apply Hsame. inv_all. reflexivity.
  - eapply claim_farms_from; eauto.
  - apply Hsame. apply create_position_spec in H. destruct H as (_ & lp & recv & identifier & _ & _ & _ & _ & _ & _ & _ & Hfa & _). exact Hfa.
  - apply Hsame. apply expand_position_spec in H. destruct H as (_ & q & lp & _ & _ & _ & _ & _ & _ & Hfa & _). exact Hfa.
  - apply Hsame. apply close_position_spec in H. destruct H as (_ & _ & _ & q & _ & _ & _ & Hfa & _). exact Hfa.
  - apply Hsame. apply withdraw_position_spec in H. destruct H as (_ & q & _ & _ & _ & Hfa & _). exact Hfa.
  - apply Hsame. apply bind_ok in H. destruct H as [[] [_ H]]. apply fm_update_config_auth in H.
    destruct H as (_ & _ & _ & Hfa & _). exact Hfa.
Qed.

(* ---------- over histories ---------- *)
From MD.Proofs Require Import FarmCustodyChain.

Definition farms_rel (o : string) (a b : world) : Prop :=
  fm_inv (w_fm a) ->
  fm_inv (w_fm b) /\
  forall id f', sfind f_id id (fm_farms (w_fm b)) = Some f' -> f_owner f' = o ->
    exists f, sfind f_id id (fm_farms (w_fm a)) = Some f /\ farm_le f f'.

Lemma farms_rel_same_fm o a b : w_fm b = w_fm a -> farms_rel o a b.
Proof.
  intros E Hi. rewrite E. split; [exact Hi|]. intros id f' Hf' _. exists f'. split; [exact Hf' | apply farm_le_refl].
Qed.

Theorem others_cannot_touch_farms o ops w :
  o <> EM -> o <> FC -> o <> PM -> o <> FM ->
  Forall (not_signed_by o) ops ->
  fm_inv (w_fm w) ->
  forall id f', sfind f_id id (fm_farms (w_fm (run w ops))) = Some f' -> f_owner f' = o ->
    exists f, sfind f_id id (fm_farms (w_fm w)) = Some f /\ farm_le f f'.
Proof.
  intros H1 H2 H3 H4 Hall Hinv.
  assert (HR : farms_rel o w (run w ops)).
  { apply (run_RS o H1 H2 H3 H4 (farms_rel o)); try exact Hall.
    - intros x. apply farms_rel_same_fm. reflexivity.
    - intros a b c Hab Hbc Ha. destruct (Hab Ha) as [Hb Kab]. destruct (Hbc Hb) as [Hc Kbc].
      split; [exact Hc|]. intros id f' Hf' Ho. destruct (Kbc id f' Hf' Ho) as (fb & Hfb & L2).
      assert (Hob : f_owner fb = o) by (destruct L2 as (_ & E & _); congruence).
      destruct (Kab id fb Hfb Hob) as (fa & Hfa & L1). exists fa. split; [exact Hfa | eapply farm_le_trans; eauto].
    - intros x y (_ & _ & _ & _ & _ & _ & Hfm). apply farms_rel_same_fm. exact Hfm.
    - intros x t s f m w2 subs Hs H Hi.
      destruct (handle_fm_state _ _ _ _ _ _ _ H) as [E | (fm & -> & -> & msgs & Hx)].
      + rewrite E. split; [exact Hi|]. intros id f' Hf' _. exists f'. split; [exact Hf' | apply farm_le_refl].
      + destruct (handle_fm_accounted _ _ _ _ _ _ Hi H) as (fm' & _ & _ & _ & Hi' & _).
        split; [exact Hi'|]. destruct Hi as [(_ & _ & _ & Hnd) _].
        intros id f' Hf' Ho. eapply fm_execute_farms_of; eauto.
    - intros x c id w2 subs H. apply farms_rel_same_fm. exact (handle_reply_fm_state _ _ _ _ _ H).
    - intros x b. apply farms_rel_same_fm. reflexivity. }
  destruct (HR Hinv) as [_ K]. exact K.
Qed.

(* stated from genesis *)
Theorem reachable_farms_safe g w0 pre o ops :
  genesis_world g = Ok w0 -> 0 <= amount_of (fm_create_fee (g_fm g)) -> Forall op_ok pre ->
  o <> EM -> o <> FC -> o <> PM -> o <> FM ->
  Forall (not_signed_by o) ops ->
  forall id f', sfind f_id id (fm_farms (w_fm (run (run w0 pre) ops))) = Some f' -> f_owner f' = o ->
    exists f, sfind f_id id (fm_farms (w_fm (run w0 pre))) = Some f /\ farm_le f f'.
Proof.
  intros Hg Hfee Hpre H1 H2 H3 H4 Hall. apply others_cannot_touch_farms; auto.
  destruct (run_custody pre w0 Hpre (genesis_custody _ _ Hg Hfee)) as [Hi _]. exact Hi.
Qed.
