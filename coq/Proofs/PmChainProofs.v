(* PmChainProofs.v — pool-table facts lifted to every reachable world (any history, any senders, faults included). *)
From MD.Model Require Import Base Ownable Epoch PoolMath Types PoolManager FarmManager Chain.
From MD.Proofs Require Import Tactics MapLemmas SwapProofs ChainProofs PmProofs.

Definition pools_rel (w w' : world) : Prop := pools_preserved (w_pm w) (w_pm w').

Lemma pools_rel_handle w t s f m w2 subs : handle w t s f m = Ok (w2, subs) -> pools_rel w w2.
Proof.
  unfold pools_rel. intros H. apply handle_ok_typed in H. destruct H as [H _]. unfold handle_typed in H.
  destruct (String.eqb t EM); [destruct m; inv_all; apply pools_preserved_refl|].
  destruct (String.eqb t FC); [destruct m; inv_all; apply pools_preserved_refl|].
  destruct (String.eqb t PM).
  { destruct m as [| |pm|]; try discriminate. apply bind_ok in H. destruct H as [[s1 subs1] [Hx H]].
    inversion H; subst. cbn [w_pm set_pm]. eapply pm_execute_pools_preserved; eauto. }
  destruct (String.eqb t FM); [|discriminate].
  destruct m as [| | |fm]; try discriminate. apply bind_ok in H. destruct H as [[s1 subs1] [Hx H]].
  inversion H; subst. apply pools_preserved_refl.
Qed.

Lemma pools_rel_reply w c id w2 subs : handle_reply w c id = Ok (w2, subs) -> pools_rel w w2.
Proof.
  unfold handle_reply, pools_rel. intros H.
  destruct (String.eqb c PM).
  { apply bind_ok in H. destruct H as [[s1 subs1] [Hx H]]. inversion H; subst. cbn [w_pm set_pm].
    eapply pm_reply_pools_preserved; eauto. }
  destruct (String.eqb c FM); [|discriminate].
  apply bind_ok in H. destruct H as [[s1 subs1] [Hx H]]. inversion H; subst. apply pools_preserved_refl.
Qed.

(* C16: after ANY history every pool that ever existed is still there with the same identifier, asset denoms,
   decimals, type, fees and LP denom *)
Lemma run_pools_preserved ops w : pools_preserved (w_pm w) (w_pm (run w ops)).
Proof.
  apply (run_R pools_rel).
  - intros x. apply pools_preserved_refl.
  - intros a b c. apply pools_preserved_trans.
  - intros x y (_ & _ & _ & _ & _ & Hpm & _). unfold pools_rel. rewrite Hpm. apply pools_preserved_refl.
  - apply pools_rel_handle.
  - apply pools_rel_reply.
  - intros x b. apply pools_preserved_refl.
Qed.

(* ---------- LP denoms are determined by (hence unique per) pool identifier ---------- *)
Definition lp_of_id (id : string) : string := ("factory/" ++ PM ++ "/" ++ id ++ ".LP")%string.

Lemma lp_of_id_inj a b : lp_of_id a = lp_of_id b -> a = b.
Proof.
  unfold lp_of_id, PM. intros H. cbn in H. inversion H as [H1]. eapply append_inv_tail; eauto.
Qed.

Definition lp_inv (s : pm_state) : Prop :=
  forall id p, sfind p_id id (pm_pools s) = Some p -> p_lp p = lp_of_id (p_id p).

Lemma lp_inv_save s (p2 : pool_info) :
  lp_inv s -> p_lp p2 = lp_of_id (p_id p2) -> lp_inv (pm_save_pool s p2).
Proof.
  intros Hi H2 id q Hq. unfold pm_save_pool, pm_with_pools in Hq; cbn [pm_pools] in Hq.
  destruct (String.eqb id (p_id p2)) eqn:E.
  - apply String.eqb_eq in E. subst id. rewrite (sfind_sinsert_same p_id p2) in Hq. inversion Hq; subst. exact H2.
  - apply String.eqb_neq in E. rewrite (sfind_sinsert_other p_id id p2) in Hq by exact E. eapply Hi; eauto.
Qed.

Lemma lp_inv_eq s s' : pm_pools s' = pm_pools s -> lp_inv s -> lp_inv s'.
Proof. intros E H id p Hp. rewrite E in Hp. eauto. Qed.

Lemma pool_find_lp s pid p : lp_inv s -> pool_find s pid = Ok p -> p_lp p = lp_of_id (p_id p).
Proof. intros Hi Hp. apply pool_find_ok in Hp. eauto. Qed.

Lemma perform_swap_lp_inv s offer ask pid b ms s' sc :
  lp_inv s -> perform_swap s offer ask pid b ms = Ok (s', sc) -> lp_inv s'.
Proof.
  intros Hi H. apply perform_swap_spec in H.
  destruct H as (p0 & oi & ai & oc & ac & od & ad & Hp & _ & _ & _ & _ & _ & ->).
  apply lp_inv_save; [exact Hi | cbn; eapply pool_find_lp; eauto].
Qed.

Lemma pm_execute_lp_inv w sender funds m s' msgs :
  lp_inv (w_pm w) -> pm_execute w sender funds m = Ok (s', msgs) -> lp_inv s'.
Proof.
  intros Hi.
  destruct m as [denoms decimals fees pt oid | ls ss r pid u l | ask bp ms r pid | pid | a | ops mr r ms | fc fm fee t];
    cbn [pm_execute]; intros H.
  - apply create_pool_shape in H. destruct H as (p & Hfresh & Hpools & _ & _ & _ & _ & _ & _ & _ & _ & _ & Hlp & _).
    intros id q Hq. rewrite Hpools in Hq.
    destruct (String.eqb id (p_id p)) eqn:E.
    + apply String.eqb_eq in E. subst id. rewrite (sfind_sinsert_same p_id p) in Hq. inversion Hq; subst. exact Hlp.
    + apply String.eqb_neq in E. rewrite (sfind_sinsert_other p_id id p) in Hq by exact E. eapply Hi; eauto.
  - apply provide_shape in H. destruct H as (p & Hp & _ & [[b ->] | [a ->]]).
    + eapply lp_inv_eq; [|exact Hi]. reflexivity.
    + apply lp_inv_save; [exact Hi | cbn; eapply pool_find_lp; eauto].
  - apply swap_spec in H. destruct H as (p & offer & sc & _ & _ & _ & _ & Hps & _).
    eapply perform_swap_lp_inv; eauto.
  - apply withdraw_shape in H. destruct H as (p & a & Hp & _ & ->).
    apply lp_inv_save; [exact Hi | cbn; eapply pool_find_lp; eauto].
  - inv_all. eapply lp_inv_eq; [|exact Hi]. reflexivity.
  - apply exec_ops_spec in H. destruct H as (lst & f & amount & out & fee_msgs & _ & _ & _ & _ & Hr & _).
    revert Hi Hr. generalize (w_pm w) as s. generalize (so_in f, amount) as prev. generalize (@nil submsg) as fm0.
    induction ops as [|o r0 IH]; intros fm0 prev s Hi Hr.
    + cbn in Hr. inversion Hr; subst. exact Hi.
    + apply route_loop_cons in Hr. destruct Hr as (s1 & sc & Hps & Hr).
      eapply IH; [|exact Hr]. eapply perform_swap_lp_inv; eauto.
  - apply bind_ok in H. destruct H as [[] [_ H]].
    apply update_config_shape in H. destruct H as (_ & _ & _ & _ & _ & Ht).
    destruct t as [t|].
    + destruct Ht as (p & Hp & Hpools). intros id q Hq. rewrite Hpools in Hq.
      set (p2 := pool_with_status p _) in Hq.
      apply (lp_inv_save (w_pm w) p2 Hi) with (id := id); [cbn; eapply pool_find_lp; eauto|].
      unfold pm_save_pool, pm_with_pools; cbn [pm_pools]. exact Hq.
    + eapply lp_inv_eq; eauto.
Qed.

Lemma run_lp_inv ops w : lp_inv (w_pm w) -> lp_inv (w_pm (run w ops)).
Proof.
  apply (run_R (fun a b => lp_inv (w_pm a) -> lp_inv (w_pm b))).
  - auto.
  - auto.
  - intros x y (_ & _ & _ & _ & _ & Hpm & _). rewrite Hpm. auto.
  - intros x t s f m w2 subs H Hi. apply handle_ok_typed in H. destruct H as [H _]. unfold handle_typed in H.
    destruct (String.eqb t EM); [destruct m; inv_all; exact Hi|].
    destruct (String.eqb t FC); [destruct m; inv_all; exact Hi|].
    destruct (String.eqb t PM).
    { destruct m as [| |pm|]; try discriminate. apply bind_ok in H. destruct H as [[s1 subs1] [Hx H]].
      inversion H; subst. cbn [w_pm set_pm]. eapply pm_execute_lp_inv; eauto. }
    destruct (String.eqb t FM); [|discriminate].
    destruct m as [| | |fm]; try discriminate. apply bind_ok in H. destruct H as [[s1 subs1] [Hx H]].
    inversion H; subst. exact Hi.
  - intros x c id w2 subs H Hi. unfold handle_reply in H.
    destruct (String.eqb c PM).
    { apply bind_ok in H. destruct H as [[s1 subs1] [Hx H]]. inversion H; subst. cbn [w_pm set_pm].
      unfold pm_reply in Hx. inv_all. eapply lp_inv_eq; [|exact Hi]. reflexivity. }
    destruct (String.eqb c FM); [|discriminate].
    apply bind_ok in H. destruct H as [[s1 subs1] [Hx H]]. inversion H; subst. exact Hi.
  - auto.
Qed.

(* identifiers and LP denoms are unique across pools, in every reachable world *)
Lemma lp_denoms_unique s id1 id2 p1 p2 :
  lp_inv s -> sfind p_id id1 (pm_pools s) = Some p1 -> sfind p_id id2 (pm_pools s) = Some p2 ->
  p_lp p1 = p_lp p2 -> id1 = id2 /\ p1 = p2.
Proof.
  intros Hi H1 H2 E. rewrite (Hi _ _ H1), (Hi _ _ H2) in E. apply lp_of_id_inj in E.
  rewrite (sfind_key _ _ _ _ H1), (sfind_key _ _ _ _ H2) in E. subst id2. split; [reflexivity | congruence].
Qed.
