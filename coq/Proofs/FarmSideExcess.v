(* C01: transactions sent to the farm manager (claims, position operations, farm expansions, configuration) do not move the
   pool manager's balance or reserves. (Farm creations / closings refund through reply-on-error sub-messages and emergency
   withdrawals pay third parties: those three are not covered here.) *)
From Coq Require Import ZArith List String Lia Bool.
From MD.Model Require Import Base Ownable Epoch Types PoolMath PoolManager FarmManager Chain.
From MD.Proofs Require Import Tactics Arith PoolMathProofs MapLemmas BankProofs ChainProofs PmProofs FarmProofs PoolCustody PoolCustodyChain
  SingleSided TxBalances TxExcess.
Import ListNotations.
Open Scope Z_scope.

Definition fm_covered (fm : fm_msg) : Prop :=
  match fm with
  | FmCreateFarm _ | FmCloseFarm _ => False
  | FmPosWithdraw _ (Some true) => False
  | _ => True
  end.

Definition pays_only (who : string) (s : submsg) : Prop := exists cs, s = plain (MBankSend who cs).

Lemma pays_only_leaves who msgs :
  Forall (pays_only who) msgs -> who <> PM ->
  forallb plain_leaf msgs = true /\ forall tf d, leaves_eff FM tf msgs PM d = 0.
Proof.
  intros H Hw. induction H as [|s r (cs & ->) Hr [IH1 IH2]]; [split; [reflexivity | intros; reflexivity]|].
  split; [cbn [forallb]; rewrite IH1; reflexivity|].
  intros tf d. cbn [leaves_eff leaf_eff plain sm_msg]. rewrite IH2.
  assert (H1 : String.eqb PM who = false) by (apply String.eqb_neq; congruence).
  change (String.eqb PM FM) with false. rewrite H1. unfold ind. lia.
Qed.

(* the messages of the covered farm-manager handlers: nothing, or one payment to the sender *)
Lemma fm_covered_msgs w sender funds fm s' msgs :
  fm_covered fm -> fm_execute w sender funds fm = Ok (s', msgs) -> Forall (pays_only sender) msgs.
Proof.
  intros Hc H. destruct fm as [p|p|fid|a|u|oid dur r|pid|pid lp|pid e|u]; cbn [fm_covered fm_execute] in *; try contradiction.
  - apply expand_farm_spec in H. destruct H as [-> _]. constructor.
  - apply bind_ok in H. destruct H as [[] [_ H]]. apply bind_ok in H. destruct H as [o [_ H]]. inversion H; subst. constructor.
  - unfold claim in H.
    apply bind_ok in H. destruct H as [[] [_ H]].
    apply bind_ok in H. destruct H as [[] [_ H]].
    apply bind_ok in H. destruct H as [ep [_ H]].
    apply bind_ok in H. destruct H as [un [_ H]].
    apply bind_ok in H. destruct H as [[s1 total] [_ H]].
    apply bind_ok in H. destruct H as [ms [Hms H]]. inversion H; subst s' msgs; clear H.
    destruct total as [|c0 r0]; [inversion Hms; constructor|].
    apply bind_ok in Hms. destruct Hms as [agg [_ Hms]]. inversion Hms; subst. repeat constructor. exists agg. reflexivity.
  - apply create_position_spec in H. destruct H as [-> _]. constructor.
  - apply expand_position_spec in H. destruct H as [-> _]. constructor.
  - apply close_position_spec in H. destruct H as (_ & -> & _). constructor.
  - apply withdraw_position_spec in H. destruct H as (_ & p & _ & Hrecv & _ & _ & _ & _ & _ & Hcase). cbv zeta in Hcase.
    destruct Hcase as [(_ & _ & ->) | (-> & _)]; [|contradiction].
    destruct (amount_of (pos_lp p) =? 0); [constructor|]. repeat constructor. rewrite Hrecv. eexists. reflexivity.
  - apply bind_ok in H. destruct H as [[] [_ H]]. unfold fm_update_config in H.
    apply bind_ok in H. destruct H as [[] [_ H]].
    apply bind_ok in H. destruct H as [fc [_ H]].
    apply bind_ok in H. destruct H as [em [_ H]].
    apply bind_ok in H. destruct H as [pm [_ H]].
    apply bind_ok in H. destruct H as [mf [_ H]].
    apply bind_ok in H. destruct H as [maxu [_ H]].
    apply bind_ok in H. destruct H as [minu [_ H]].
    apply bind_ok in H. destruct H as [ex [_ H]].
    apply bind_ok in H. destruct H as [pen [_ H]]. inversion H; subst. constructor.
Qed.

Theorem fm_tx_excess w sender fm funds w' :
  sender <> PM -> fm_covered fm ->
  run_tx w sender FM (WFm fm) funds = Ok w' ->
  forall d, slackP w' d = slackP w d.
Proof.
  intros Hs Hc H d.
  destruct (leaf_tx_full _ _ _ _ _ _ H) as (wa & w2 & msgs & Hsa & Hsup & Eh & Hfull).
  apply handle_ok_typed in Eh. destruct Eh as (Eh & _ & _). unfold handle_typed in Eh.
  cbn [String.eqb EM FC PM FM Ascii.eqb Bool.eqb] in Eh.
  apply bind_ok in Eh. destruct Eh as [[s1 msgs1] [Hx Eh]]. inversion Eh; subst w2 msgs; clear Eh.
  pose proof Hsa as (_ & _ & _ & _ & _ & Hpma & _).
  destruct (pays_only_leaves sender msgs1 (fm_covered_msgs _ _ _ _ _ _ Hc Hx) Hs) as [Hleaf Heff].
  destruct (Hfull Hleaf) as [(_ & _ & _ & _ & _ & Hpm' & _) Hbal]. cbn [w_pm set_fm] in Hpm'.
  unfold slackP. rewrite Hpm', Hpma, (Hbal PM d), Heff.
  assert (Hsp : String.eqb PM sender = false) by (apply String.eqb_neq; congruence).
  change (String.eqb PM FM) with false. rewrite Hsp. unfold ind. lia.
Qed.
