(* EpochProofs.v — lemmas behind property C18. *)
From MD.Model Require Import Base Ownable Epoch.
From MD.Proofs Require Import Tactics.

Definition wf_block (b : block) : Prop := 0 <= time b <= U64_MAX.
Definition wf_cfg (c : epoch_cfg) : Prop := 0 <= genesis c <= U64_MAX /\ 0 <= duration c <= U64_MAX.

Lemma ts_from_seconds_ok s r : ts_from_seconds s = Ok r -> r = s * NANOS /\ 0 <= s * NANOS <= U64_MAX.
Proof.
  unfold ts_from_seconds, in_range. destruct (0 <=? s * NANOS) eqn:E1; destruct (s * NANOS <=? U64_MAX) eqn:E2;
    simpl; intros H; inversion H; subst; lia.
Qed.

Lemma query_epoch_spec c id e :
  query_epoch c id = Ok e ->
  ep_id e = id /\ ep_start e = (genesis c + id * duration c) * NANOS /\
  0 <= id * duration c <= U64_MAX /\ 0 <= genesis c + id * duration c <= U64_MAX /\
  0 <= ep_start e <= U64_MAX.
Proof.
  unfold query_epoch. intros H. inv_res.
  match goal with H : ts_from_seconds _ = Ok _ |- _ => apply ts_from_seconds_ok in H; destruct H as [-> Hr] end. simpl. lia.
Qed.

Lemma query_epoch_complete c id :
  0 <= id * duration c <= U64_MAX -> 0 <= genesis c ->
  (genesis c + id * duration c) * NANOS <= U64_MAX ->
  exists e, query_epoch c id = Ok e.
Proof.
  intros H1 H2 H3. unfold query_epoch, cmul, cadd, ts_from_seconds, NANOS, U64_MAX in *.
  rewrite chk_ok_intro by (unfold U64_MAX; lia). simpl.
  rewrite chk_ok_intro by (unfold U64_MAX; lia). simpl.
  unfold in_range.
  replace (0 <=? _) with true by lia. replace (_ <=? _) with true by lia. simpl. eauto.
Qed.

Lemma query_epoch_err c id s :
  0 <= id -> wf_cfg c -> query_epoch c id = Err s ->
  U64_MAX < (genesis c + id * duration c) * NANOS.
Proof.
  unfold wf_cfg, query_epoch, cmul, cadd. intros Hid [Hg Hd] H.
  destruct (chk U64_MAX (id * duration c)) eqn:E1; simpl in H.
  - apply chk_ok in E1. destruct E1 as [-> E1].
    destruct (chk U64_MAX (genesis c + id * duration c)) eqn:E2; simpl in H.
    + apply chk_ok in E2. destruct E2 as [-> E2].
      unfold ts_from_seconds, in_range in H.
      destruct (0 <=? _) eqn:E3 in H; destruct (_ <=? U64_MAX) eqn:E4 in H; simpl in H;
        try discriminate; unfold NANOS in *; lia.
    + apply chk_err in E2. unfold NANOS, U64_MAX in *. nia.
  - apply chk_err in E1. unfold NANOS, U64_MAX in *. nia.
Qed.

Lemma current_epoch_spec c b e :
  wf_block b -> wf_cfg c -> query_current_epoch c b = Ok e ->
  genesis c <= seconds b /\ duration c <> 0 /\
  ep_id e = (seconds b - genesis c) / duration c /\
  ep_start e = (genesis c + ep_id e * duration c) * NANOS.
Proof.
  unfold wf_block, wf_cfg, query_current_epoch, seconds. intros Hb [Hg Hd] H. inv_res.
  match goal with H : ts_from_seconds _ = Ok _ |- _ => apply ts_from_seconds_ok in H; destruct H as [-> Hg9] end.
  apply query_epoch_spec in H. destruct H as (Hid & Hst & _).
  assert (E : (time b - genesis c * NANOS) / NANOS = time b / NANOS - genesis c).
  { unfold NANOS. replace (time b - genesis c * 1000000000) with (time b + (- genesis c) * 1000000000) by lia.
    rewrite Z.div_add by lia. lia. }
  rewrite E in *. repeat split; try lia. all: try (rewrite Hst, Hid; reflexivity).
Qed.

Lemma before_genesis_fails c b :
  seconds b < genesis c -> exists s, query_current_epoch c b = Err s.
Proof.
  intros H. unfold query_current_epoch, ensure.
  replace (genesis c <=? seconds b) with false by lia. simpl. eauto.
Qed.

Lemma defined_from_genesis c b :
  wf_block b -> wf_cfg c -> 0 < duration c -> genesis c <= seconds b ->
  exists e, query_current_epoch c b = Ok e.
Proof.
  unfold wf_block, wf_cfg, query_current_epoch, seconds, ensure. intros Hb [Hg Hd] Hpos Hge.
  replace (genesis c <=? time b / NANOS) with true by lia. simpl.
  unfold ts_from_seconds, in_range, NANOS in *.
  replace (0 <=? genesis c * 1000000000) with true by lia.
  replace (genesis c * 1000000000 <=? U64_MAX) with true by (unfold U64_MAX in *; lia). simpl.
  unfold csub. rewrite chk_ok_intro by (unfold U64_MAX in *; lia). simpl.
  unfold cdiv. replace (duration c =? 0) with false by lia. simpl.
  set (q := (time b - genesis c * 1000000000) / 1000000000 / duration c).
  assert (Hq : 0 <= q /\ q * duration c <= time b / 1000000000 - genesis c).
  { assert (E : (time b - genesis c * 1000000000) / 1000000000 = time b / 1000000000 - genesis c).
    { replace (time b - genesis c * 1000000000) with (time b + (- genesis c) * 1000000000) by lia.
      rewrite Z.div_add by lia. lia. }
    subst q. rewrite E. split.
    - apply Z.div_pos; lia.
    - rewrite Z.mul_comm. apply Z.mul_div_le. lia. }
  apply query_epoch_complete; unfold U64_MAX, NANOS in *; try lia; try nia.
Qed.

Lemma monotone_in_time c b1 b2 e1 e2 :
  wf_block b1 -> wf_block b2 -> wf_cfg c ->
  time b1 <= time b2 ->
  query_current_epoch c b1 = Ok e1 -> query_current_epoch c b2 = Ok e2 ->
  ep_id e1 <= ep_id e2.
Proof.
  intros W1 W2 Wc Hle H1 H2.
  apply current_epoch_spec in H1; auto. apply current_epoch_spec in H2; auto.
  destruct H1 as (G1 & D1 & I1 & _). destruct H2 as (G2 & D2 & I2 & _).
  rewrite I1, I2. destruct Wc as [_ Hd].
  apply Z.div_le_mono; [lia|]. unfold seconds, NANOS.
  assert (time b1 / 1000000000 <= time b2 / 1000000000) by (apply Z.div_le_mono; lia). lia.
Qed.

Lemma plus_duration_is_succ c b1 b2 e1 e2 :
  wf_block b1 -> wf_block b2 -> wf_cfg c ->
  time b2 = time b1 + duration c * NANOS ->
  query_current_epoch c b1 = Ok e1 -> query_current_epoch c b2 = Ok e2 ->
  ep_id e2 = ep_id e1 + 1.
Proof.
  intros W1 W2 Wc Ht H1 H2.
  apply current_epoch_spec in H1; auto. apply current_epoch_spec in H2; auto.
  destruct H1 as (G1 & D1 & I1 & _). destruct H2 as (G2 & D2 & I2 & _).
  rewrite I1, I2. unfold seconds in *. rewrite Ht. unfold NANOS in *.
  rewrite Z.div_add by lia.
  replace (time b1 / 1000000000 + duration c - genesis c)
    with ((time b1 / 1000000000 - genesis c) + 1 * duration c) by lia.
  rewrite Z.div_add by lia. reflexivity.
Qed.

Lemma now_in_current_interval c b e :
  wf_block b -> wf_cfg c -> query_current_epoch c b = Ok e ->
  ep_start e <= time b < ep_start e + duration c * NANOS.
Proof.
  intros Wb Wc H. apply current_epoch_spec in H; auto.
  destruct H as (G & D & I & S). destruct Wc as [Hg Hd]. unfold wf_block in Wb.
  rewrite S, I. unfold seconds, NANOS in *.
  set (s := time b / 1000000000) in *.
  assert (Hs : s * 1000000000 <= time b < s * 1000000000 + 1000000000) by (subst s; lia).
  set (q := (s - genesis c) / duration c).
  assert (Hq : q * duration c <= s - genesis c < q * duration c + duration c).
  { subst q. pose proof (Z.div_mod (s - genesis c) (duration c) D).
    pose proof (Z.mod_pos_bound (s - genesis c) (duration c)). lia. }
  nia.
Qed.

Lemma now_before_next_start c b e e' :
  wf_block b -> wf_cfg c -> query_current_epoch c b = Ok e ->
  query_epoch c (ep_id e + 1) = Ok e' ->
  ep_start e <= time b < ep_start e' /\ ep_start e' = ep_start e + duration c * NANOS.
Proof.
  intros Wb Wc H H'. pose proof (now_in_current_interval _ _ _ Wb Wc H) as Hin.
  apply current_epoch_spec in H; auto. destruct H as (_ & _ & _ & S).
  apply query_epoch_spec in H'. destruct H' as (_ & S' & _).
  assert (ep_start e' = ep_start e + duration c * NANOS) by (rewrite S, S'; ring).
  lia.
Qed.

(* configuration validation, as an invariant of every state of the contract *)
Definition cfg_ok (c : epoch_cfg) : Prop := DAY_IN_SECONDS <= duration c.

Lemma instantiate_validates av b o c s :
  em_instantiate av b o c = Ok s ->
  em_cfg s = c /\ DAY_IN_SECONDS <= duration c /\ seconds b <= genesis c /\ owner (em_own s) = Some o.
Proof.
  unfold em_instantiate, validate_epoch_duration, init_ownership. intros H. inv_res. simpl. repeat split; lia.
Qed.

Lemma execute_validates av b sender f m s s' :
  em_execute av b sender f m s = Ok s' ->
  em_cfg s' = em_cfg s \/
  (exists c, m = EmUpdateConfig (Some c) /\ em_cfg s' = c /\ DAY_IN_SECONDS <= duration c /\
             seconds b <= genesis c /\ owner (em_own s) = Some sender /\ f = false).
Proof.
  unfold em_execute. intros H. inv_res. destruct m as [[c|]|a].
  - inv_res. right. exists c. unfold validate_epoch_duration in *. inv_res. simpl.
    match goal with H : assert_owner _ _ = Ok _ |- _ => unfold assert_owner in H;
      destruct (owner (em_own s)) as [x|] eqn:Eo; [|discriminate]; apply ensure_ok in H;
      apply String.eqb_eq in H; subst end. destruct f; [discriminate|].
    repeat split; auto; lia.
  - inv_res. left; reflexivity.
  - inv_res. left; reflexivity.
Qed.

Lemma execute_preserves_cfg_ok av b sender f m s s' :
  cfg_ok (em_cfg s) -> em_execute av b sender f m s = Ok s' -> cfg_ok (em_cfg s').
Proof.
  intros Hok H. apply execute_validates in H. destruct H as [-> | (c & _ & -> & Hd & _)]; auto.
Qed.

(* any sequence of (possibly failing) messages keeps the configuration valid *)
Definition em_step av (s : em_state) (x : block * string * bool * em_msg) : em_state :=
  match x with (b, sender, f, m) =>
    match em_execute av b sender f m s with Ok s' => s' | Err _ => s end end.

Lemma reachable_cfg_ok av xs s :
  cfg_ok (em_cfg s) -> cfg_ok (em_cfg (fold_left (em_step av) xs s)).
Proof.
  revert s. induction xs as [|[[[b sender] f] m] xs IH]; simpl; intros s H; auto.
  apply IH. destruct (em_execute av b sender f m s) eqn:E; auto.
  eapply execute_preserves_cfg_ok; eauto.
Qed.
