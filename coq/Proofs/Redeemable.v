(* Redeemable.v — C05 / C08, the "hence": in every world where the custody invariant holds (every reachable world,
   C05) and no fault is being injected, the WITHDRAWAL TRANSACTION of a closed position whose unlock instant has been
   reached, sent by its owner, SUCCEEDS: the handler accepts it (C08_withdraw_iff) and the farm manager's bank balance
   covers the transfer of the whole recorded amount (C05). *)
From MD.Model Require Import Base Ownable Epoch PoolMath Types PoolManager FarmManager Chain.
From MD.Proofs Require Import Tactics MapLemmas BankProofs PoolMathProofs ChainProofs WeightProofs FarmProofs FarmChainProofs
  FarmCustody FarmCustodyChain.

(* a single-coin transfer succeeds when the sender has the coins and the receiver's balance stays inside u128 *)
Lemma bank_send_one_ok b from to d a :
  0 < a -> a <= bal b from d -> from <> to ->
  0 <= bal b to d -> bal b to d + a <= U128_MAX ->
  exists b', bank_send b from to [(d, a)] = Ok b'.
Proof.
  intros Ha Hbal Hne Hto Hmax. unfold bank_send, bank_normalize. cbn [forallb amount_of snd filter negb].
  assert (E0 : (0 <=? a) = true) by (apply Z.leb_le; lia). rewrite E0. cbn [andb negb].
  assert (E1 : (a =? 0) = false) by (apply Z.eqb_neq; lia). rewrite E1. cbn [negb bind].
  unfold bal_sub. cbn [foldM denom_of amount_of fst snd bind].
  fold (bal b from d).
  assert (E2 : (bal b from d <? a) = false) by (apply Z.ltb_ge; lia). rewrite E2. cbn [bind].
  unfold bal_add. cbn [foldM denom_of amount_of fst snd bind].
  rewrite bal_get_set_other by (intros C; inversion C; congruence).
  fold (bal b to d). unfold cadd, chk, in_range.
  assert (E3 : ((0 <=? bal b to d + a) && (bal b to d + a <=? U128_MAX)) = true).
  { apply andb_true_iff. split; [apply Z.leb_le | apply Z.leb_le]; lia. }
  rewrite E3. cbn [bind]. eauto.
Qed.

Theorem closed_position_withdrawal_succeeds w o id q e :
  custody w -> w_fault w = None ->
  sfind pos_id id (fm_positions (w_fm w)) = Some q -> pos_recv q = o -> pos_open q = false -> pos_exp q = Some e ->
  e <= seconds (w_block w) ->
  o <> FM ->
  0 <= bal (w_bank w) o (denom_of (pos_lp q)) ->
  bal (w_bank w) o (denom_of (pos_lp q)) + amount_of (pos_lp q) <= U128_MAX ->
  exists w', run_tx w o FM (WFm (FmPosWithdraw id None)) [] = Ok w'.
Proof.
  intros [Hinv Hslack] Hfault Hq Ho Hclosed Hexp Hle Hne Hb0 Hbmax.
  assert (Hem : (None : option bool) <> Some true) by discriminate.
  destruct (proj2 (withdraw_normal_iff w o [] id None q e Hq Hclosed Hexp Hem) (conj eq_refl (conj Ho Hle))) as (s' & msgs & Hw).
  pose proof (withdraw_position_spec _ _ _ _ _ _ _ Hw) as (_ & p & Hp & _ & _ & _ & _ & _ & _ & Hcase).
  rewrite Hq in Hp. inversion Hp; subst p; clear Hp. cbv zeta in Hcase.
  destruct Hcase as [(_ & _ & Hmsgs) | (C & _)]; [|discriminate].
  (* the handler, as the chain calls it *)
  assert (Hh : handle w FM o [] (WFm (FmPosWithdraw id None)) = Ok (set_fm w s', msgs)).
  { unfold handle. cbn [coins_ok forallb wmsg_ok andb]. unfold handle_typed.
    cbn [String.eqb EM FC PM FM Ascii.eqb Bool.eqb]. cbn [fm_execute]. rewrite Hw. reflexivity. }
  unfold run_tx, FUEL. rewrite process_cons. unfold exec_sub. cbn [plain sm_msg sm_reply sm_id wants_success wants_error].
  rewrite Hh.
  (* the amounts *)
  destruct Hinv as [[_ [Hpos _]] _].
  assert (Hamt : 0 <= amount_of (pos_lp q)) by (apply Hpos; eapply sfind_in; eauto).
  destruct (amount_of (pos_lp q) =? 0) eqn:Ez.
  - subst msgs. rewrite process_nil. cbn [fst]. rewrite process_nil. cbn [fst]. eauto.
  - apply Z.eqb_neq in Ez. subst msgs.
    rewrite process_leaves by reflexivity.
    cbn [exec_leaves send_to plain sm_msg exec_leaf]. unfold bank_call, fault_tick. cbn [w_fault set_fm]. rewrite Hfault.
    cbn [w_bank set_fm].
    set (lp := denom_of (pos_lp q)) in *. set (a := amount_of (pos_lp q)) in *.
    assert (Hcover : a <= bal (w_bank w) FM lp).
    { specialize (Hslack lp). unfold slack, obl in Hslack.
      assert (H1 : pos_owed lp q <= ssum (pos_owed lp) (fm_positions (w_fm w))).
      { apply (ssum_in_le pos_id (pos_owed lp) q); [|eapply sfind_in; eauto].
        intros y Hy. unfold pos_owed. apply ind_nonneg. apply Hpos. exact Hy. }
      assert (H2 : 0 <= ssum (farm_owed lp) (fm_farms (w_fm w))).
      { apply (ssum_nonneg f_id (farm_owed lp)). intros f _. unfold farm_owed. apply ind_nonneg. unfold ssub. lia. }
      assert (E : pos_owed lp q = a) by (unfold pos_owed, ind; subst lp a; rewrite String.eqb_refl; reflexivity).
      rewrite E in H1. lia. }
    rewrite Ho in *.
    destruct (bank_send_one_ok (w_bank w) FM o lp a) as [b' Hb']; try lia; try congruence.
    rewrite Hb'. cbn [fst]. rewrite process_nil. cbn [fst]. eauto.
Qed.

(* in every world reachable from genesis *)
Theorem reachable_closed_position_withdrawable g w0 ops o id q e :
  genesis_world g = Ok w0 -> 0 <= amount_of (fm_create_fee (g_fm g)) -> Forall op_ok ops ->
  let w := run w0 ops in
  w_fault w = None ->
  sfind pos_id id (fm_positions (w_fm w)) = Some q -> pos_recv q = o -> pos_open q = false -> pos_exp q = Some e ->
  e <= seconds (w_block w) ->
  o <> FM ->
  0 <= bal (w_bank w) o (denom_of (pos_lp q)) ->
  bal (w_bank w) o (denom_of (pos_lp q)) + amount_of (pos_lp q) <= U128_MAX ->
  exists w', run_tx w o FM (WFm (FmPosWithdraw id None)) [] = Ok w'.
Proof.
  intros Hg Hfee Hok w. apply closed_position_withdrawal_succeeds.
  apply run_custody; [exact Hok | eapply genesis_custody; eauto].
Qed.
