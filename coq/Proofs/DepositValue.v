(* C02 at handler level: a (non-first) deposit into a constant-product pool mints m LP with m x <= a S and m y <= b S
   (x, y the reserves, a, b the amounts deposited of each, S the LP supply), hence x y / S^2 - the value per LP token,
   compared exactly - does not decrease: x y (S + m)^2 <= (x + a)(y + b) S^2. *)
From Coq Require Import ZArith List String Lia Bool.
From MD.Model Require Import Base Ownable Epoch Types PoolMath PoolManager FarmManager Chain.
From MD.Proofs Require Import Tactics Arith PoolMathProofs MapLemmas BankProofs SlippageProofs ChainProofs PmProofs LiquidityProofs PoolCustody TxExcess.
Import ListNotations.
Open Scope Z_scope.

Lemma mul_ratio_floor a n d r : mul_ratio U128_MAX a n d = Ok r -> 0 < d -> r * d <= a * n.
Proof.
  unfold mul_ratio. destruct (d =? 0); [discriminate|]. intros H Hd. apply chk_ok in H. destruct H as [-> _].
  pose proof (Z.mul_div_le (a * n) d Hd). lia.
Qed.

(* the share computation of a two-asset constant-product pool, deposits given in either order *)
Lemma cp_shares_bound dx dy x y (deposits : list coin) S shares :
  dx <> dy -> 0 < x -> 0 < y ->
  mapM (fun d => let* i := of_option (index_of_denom (denom_of d) [(dx, x); (dy, y)]) "AssetMismatch" in
                 let* pa := nth_coin i [(dx, x); (dy, y)] in
                 mul_ratio U128_MAX (amount_of d) S (amount_of pa)) deposits = Ok shares ->
  forall d0 d1 s0 s1, deposits = [d0; d1] -> denom_of d0 <> denom_of d1 ->
  nthZ 0 shares = Ok s0 -> nthZ 1 shares = Ok s1 ->
  Z.min s0 s1 * x <= camt deposits dx * S /\ Z.min s0 s1 * y <= camt deposits dy * S.
Proof.
  intros Hne Hx Hy Hm d0 d1 s0 s1 -> Hdd H0 H1.
  cbn [mapM] in Hm.
  apply bind_ok in Hm. destruct Hm as [t0 [Ht0 Hm]].
  apply bind_ok in Hm. destruct Hm as [tl [Htl Hm]].
  apply bind_ok in Htl. destruct Htl as [t1 [Ht1 Htl]]. cbn [mapM] in Htl. inversion Htl; subst tl; clear Htl.
  inversion Hm; subst shares; clear Hm. cbn in H0, H1. inversion H0; subst s0. inversion H1; subst s1. clear H0 H1.
  unfold index_of_denom in Ht0, Ht1. cbn [find_index denom_of fst option_map] in Ht0, Ht1.
  assert (Hxy : String.eqb dx dy = false) by (apply String.eqb_neq; exact Hne).
  cbn [camt denom_of amount_of fst snd].
  destruct (String.eqb (denom_of d0) dx) eqn:E0x.
  - apply String.eqb_eq in E0x. cbn [of_option bind nth_coin nth_error amount_of snd] in Ht0.
    apply mul_ratio_floor in Ht0; [|exact Hx].
    destruct (String.eqb (denom_of d1) dx) eqn:E1x; [apply String.eqb_eq in E1x; congruence|].
    destruct (String.eqb (denom_of d1) dy) eqn:E1y; cbn [of_option bind option_map] in Ht1; [|discriminate].
    cbn [nth_coin nth_error of_option bind amount_of snd] in Ht1. apply mul_ratio_floor in Ht1; [|exact Hy].
    apply String.eqb_eq in E1y.
    assert (E0y : String.eqb (denom_of d0) dy = false) by (apply String.eqb_neq; congruence).
    rewrite E0y. pose proof (Z.le_min_l t0 t1). pose proof (Z.le_min_r t0 t1). split; nia.
  - destruct (String.eqb (denom_of d0) dy) eqn:E0y; cbn [of_option bind option_map] in Ht0; [|discriminate].
    cbn [nth_coin nth_error of_option bind amount_of snd] in Ht0. apply mul_ratio_floor in Ht0; [|exact Hy].
    apply String.eqb_eq in E0y.
    destruct (String.eqb (denom_of d1) dx) eqn:E1x.
    + cbn [of_option bind nth_coin nth_error amount_of snd] in Ht1. apply mul_ratio_floor in Ht1; [|exact Hx].
      assert (E1y : String.eqb (denom_of d1) dy = false) by (apply String.eqb_neq; apply String.eqb_eq in E1x; congruence).
      rewrite E1y. pose proof (Z.le_min_l t0 t1). pose proof (Z.le_min_r t0 t1). split; nia.
    + destruct (String.eqb (denom_of d1) dy) eqn:E1y; cbn [of_option bind option_map] in Ht1; [|discriminate].
      apply String.eqb_eq in E1y. congruence.
Qed.

Lemma mul_ratio_nonneg a n d r : mul_ratio U128_MAX a n d = Ok r -> 0 <= r.
Proof. unfold mul_ratio. destruct (d =? 0); [discriminate|]. intros H. apply chk_ok in H. lia. Qed.

(* the handler: an unlocked deposit of both assets into a funded constant-product pool *)
Theorem provide_cp_value w sender funds ls ss r pid l s' msgs d0 d1 p dx dy x y S :
  aggregate_coins funds = Ok [d0; d1] -> denom_of d0 <> denom_of d1 ->
  (forall c, In c funds -> 0 <= amount_of c) ->
  provide_liquidity w sender funds ls ss r pid None l = Ok (s', msgs) ->
  pool_find (w_pm w) pid = Ok p -> p_type p = ConstantProduct ->
  p_assets p = [(dx, x); (dy, y)] -> dx <> dy -> 0 < x -> 0 < y ->
  supply (w_bank w) (p_lp p) = S -> 0 < S ->
  exists m,
    msgs = [plain (MTfMint (p_lp p, m) (addr_or_default w r sender))] /\ 0 <= m /\
    m * x <= camt funds dx * S /\ m * y <= camt funds dy * S /\
    (forall d, res s' d = res (w_pm w) d + camt funds d) /\
    (* value per LP token does not decrease *)
    x * y * ((S + m) * (S + m)) <= (x + camt funds dx) * (y + camt funds dy) * (S * S).
Proof.
  intros Hagg Hdd Hfn H Hp Hty Hassets Hne Hx Hy Hsup HS.
  destruct (provide_plain_exact _ _ _ _ _ _ _ _ _ _ _ _ _ Hagg H) as (p' & shares0 & first & Hp' & _ & _ & Hres).
  unfold provide_liquidity, mint_lp_msg in H. rewrite Hp in H. cbn [bind] in H.
  apply bind_ok in H. destruct H as [[] [_ H]].
  rewrite Hagg in H. cbn [bind] in H.
  apply bind_ok in H. destruct H as [[] [_ H]].
  apply bind_ok in H. destruct H as [[] [_ H]].
  apply bind_ok in H. destruct H as [ts [Hts H]].
  unfold total_share in Hts. destruct (is_factory_token (p_lp p)); [|discriminate]. inversion Hts; subst ts; clear Hts.
  rewrite Hsup, Hty in H. replace (S =? 0) with false in H by lia.
  apply bind_ok in H. destruct H as [[sh msgs0] [Hm0 H]].
  apply bind_ok in H. destruct H as [pa' [_ H]].
  apply bind_ok in H. destruct H as [msgs1 [Hm1 H]].
  apply bind_ok in H. destruct H as [assets'' [_ H]]. inversion H; subst s' msgs; clear H.
  apply bind_ok in Hm0. destruct Hm0 as [shares [Hshares Hm0]].
  apply bind_ok in Hm0. destruct Hm0 as [s0 [Hs0 Hm0]].
  apply bind_ok in Hm0. destruct Hm0 as [s1 [Hs1 Hm0]]. inversion Hm0; subst sh msgs0; clear Hm0.
  apply bind_ok in Hm1. destruct Hm1 as [[] [_ Hm1]].
  apply bind_ok in Hm1. destruct Hm1 as [mm [Hmint Hm1]].
  apply bind_ok in Hmint. destruct Hmint as [[] [_ Hmint]]. inversion Hmint; subst mm. inversion Hm1; subst msgs1; clear Hm1.
  rewrite Hassets in Hshares.
  destruct (cp_shares_bound dx dy x y [d0; d1] S shares Hne Hx Hy Hshares d0 d1 s0 s1 eq_refl Hdd Hs0 Hs1) as [Bx By].
  rewrite <- (aggregate_camt _ _ dx Hagg), <- (aggregate_camt _ _ dy Hagg) in *.
  assert (Hm0 : 0 <= Z.min s0 s1).
  { cbn [mapM] in Hshares.
    apply bind_ok in Hshares. destruct Hshares as [t0 [Ht0 Hshares]].
    apply bind_ok in Hshares. destruct Hshares as [tl [Htl Hshares]].
    apply bind_ok in Htl. destruct Htl as [t1 [Ht1 Htl]]. cbn [mapM] in Htl. inversion Htl; subst tl; clear Htl.
    inversion Hshares; subst shares. cbn in Hs0, Hs1. inversion Hs0; subst s0. inversion Hs1; subst s1.
    apply bind_ok in Ht0. destruct Ht0 as [i0 [_ Ht0]]. apply bind_ok in Ht0. destruct Ht0 as [pa0 [_ Ht0]]. apply mul_ratio_nonneg in Ht0.
    apply bind_ok in Ht1. destruct Ht1 as [i1 [_ Ht1]]. apply bind_ok in Ht1. destruct Ht1 as [pa1 [_ Ht1]]. apply mul_ratio_nonneg in Ht1.
    lia. }
  exists (Z.min s0 s1). split; [reflexivity|]. split; [exact Hm0|]. split; [exact Bx|]. split; [exact By|]. split; [exact Hres|].
  pose proof (camt_all_nonneg funds dx Hfn) as Ha. pose proof (camt_all_nonneg funds dy Hfn) as Hb.
  apply cp_deposit_value_per_lp; lia.
Qed.
