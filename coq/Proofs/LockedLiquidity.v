(* The pool manager's surplus (bank balance minus the sum of the reserves of all pools) never decreases, per denom,
   along ANY history — so whatever was locked (the minimum liquidity of a first deposit in particular) stays locked. *)
From Coq Require Import ZArith List String Lia Bool.
From MD.Model Require Import Base Types PoolMath PoolManager FarmManager Chain.
From MD.Proofs Require Import Tactics Arith MapLemmas BankProofs ChainProofs PmProofs PmChainProofs LiquidityProofs PoolCustody PoolCustodyChain SingleSided TxBalances TxExcess.
Import ListNotations.
Open Scope Z_scope.

Lemma step_slack_mono w o d : op_okP o -> pool_custody w -> slackP w d <= slackP (fst (step w o)) d.
Proof.
  intros Hok Hc. destruct o as [b|sender target m funds|from to amount|k]; cbn [step].
  - cbn [fst]. unfold slackP. cbn. lia.
  - destruct Hok as [Hsender Hsm].
    destruct (run_tx w sender target m funds) as [w'|e] eqn:E; cbn [fst]; [|unfold slackP; cbn; lia].
    unfold run_tx in E. destruct (process FUEL w sender [plain (MWasm target m funds)]) as [[w1|e1] fl] eqn:Ep; cbn [fst] in E; [|discriminate].
    inversion E; subst w1. destruct Hc as [Hi [Hbk Hbuf]].
    assert (Hsf : String.eqb sender PM = false) by (apply String.eqb_neq; exact Hsender).
    assert (Hnl : String.eqb sender PM = true -> pm_list_ok w [plain (MWasm target m funds)]) by (intros C; rewrite Hsf in C; discriminate).
    destruct (process_pool FUEL _ _ _ _ _ Ep Hi (Forall_cons _ Hsm (Forall_nil _)) Hnl (fun _ => Hbuf)) as (_ & _ & _ & Hsl).
    specialize (Hsl d). rewrite Hsf in Hsl. unfold slackP in *. cbn [w_bank w_pm set_fault]. lia.
  - destruct (bank_send (w_bank w) from to amount) as [b'|e] eqn:Eb; cbn [fst]; [|lia].
    unfold slackP. cbn [w_bank w_pm set_bank].
    apply bank_send_spec in Eb. destruct Eb as [Hnn Hb]. rewrite Hb.
    assert (Hf : String.eqb PM from = false) by (apply String.eqb_neq; cbn in Hok; congruence). rewrite Hf.
    pose proof (camt_nonneg _ d Hnn). unfold ind. destruct (String.eqb PM to); lia.
  - cbn [fst]. unfold slackP. cbn. lia.
Qed.

Theorem run_slack_mono ops : forall w d, Forall op_okP ops -> pool_custody w -> slackP w d <= slackP (run w ops) d.
Proof.
  induction ops as [|o r IH]; intros w d Hok Hc; cbn [run fold_left]; [lia|].
  inversion Hok as [|x xs Ho Hr]; subst.
  pose proof (step_slack_mono w o d Ho Hc). pose proof (step_pool_custody w o Ho Hc) as Hc'.
  specialize (IH _ d Hr Hc'). unfold run in IH. lia.
Qed.

(* whatever surplus was there at some point of a history is still there at every later point *)
Corollary locked_stays_locked ops w d n : Forall op_okP ops -> pool_custody w -> n <= slackP w d -> n <= slackP (run w ops) d.
Proof. intros Hok Hc Hn. pose proof (run_slack_mono ops w d Hok Hc). lia. Qed.

(* ---------- the first deposit into a constant-product pool locks MINIMUM_LIQUIDITY_AMOUNT in the pool manager ---------- *)
Lemma provide_plain_first w sender funds ls ss r pid l s' msgs d0 d1 rest p :
  aggregate_coins funds = Ok (d0 :: d1 :: rest) ->
  provide_liquidity w sender funds ls ss r pid None l = Ok (s', msgs) ->
  pool_find (w_pm w) pid = Ok p -> p_type p = ConstantProduct -> supply (w_bank w) (p_lp p) = 0 ->
  exists shares, 0 <= shares /\
    msgs = [plain (MTfMint (p_lp p, MINIMUM_LIQUIDITY_AMOUNT) PM); plain (MTfMint (p_lp p, shares) (addr_or_default w r sender))]%list /\
    forall d, res s' d = res (w_pm w) d + camt funds d.
Proof.
  intros Hagg H Hp Hty Hsup.
  destruct (provide_plain_exact _ _ _ _ _ _ _ _ _ _ _ _ _ Hagg H) as (p' & shares0 & first & Hp' & _ & _ & Hres).
  unfold provide_liquidity, mint_lp_msg in H. rewrite Hp in H. cbn [bind] in H.
  apply bind_ok in H. destruct H as [[] [_ H]].
  rewrite Hagg in H. cbn [bind] in H.
  apply bind_ok in H. destruct H as [[] [_ H]].
  apply bind_ok in H. destruct H as [[] [_ H]].
  apply bind_ok in H. destruct H as [ts [Hts H]].
  unfold total_share in Hts. destruct (is_factory_token (p_lp p)); [|discriminate]. inversion Hts; subst ts; clear Hts.
  rewrite Hsup, Hty in H. cbn [Z.eqb] in H.
  apply bind_ok in H. destruct H as [[sh msgs0] [Hm0 H]].
  apply bind_ok in H. destruct H as [pa' [_ H]].
  apply bind_ok in H. destruct H as [msgs1 [Hm1 H]].
  apply bind_ok in H. destruct H as [assets'' [_ H]]. inversion H; subst s' msgs; clear H.
  exists sh. split; [|split; [|exact Hres]].
  { inv_all. unfold ssub. lia. }
  apply bind_ok in Hm1. destruct Hm1 as [[] [_ Hm1]].
  apply bind_ok in Hm1. destruct Hm1 as [m [Hmint Hm1]].
  apply bind_ok in Hmint. destruct Hmint as [[] [_ Hmint]]. inversion Hmint; subst m. inversion Hm1; subst msgs1; clear Hm1.
  inv_all. reflexivity.
Qed.

(* whole transaction: the first deposit (LP supply zero) into a constant-product pool raises the pool manager's surplus of
   the LP denom by exactly MINIMUM_LIQUIDITY_AMOUNT (plus the depositor's own shares if he names the pool manager as receiver) *)
Theorem first_deposit_tx w sender funds ls ss r pid l w' d0 d1 rest p :
  sender <> PM -> aggregate_coins funds = Ok (d0 :: d1 :: rest) ->
  run_tx w sender PM (WPm (PmProvide ls ss r pid None l)) funds = Ok w' ->
  pool_find (w_pm w) pid = Ok p -> p_type p = ConstantProduct -> supply (w_bank w) (p_lp p) = 0 ->
  exists shares, 0 <= shares /\
    forall d, slackP w' d = slackP w d
                + ind (String.eqb (p_lp p) d) MINIMUM_LIQUIDITY_AMOUNT
                + ind (String.eqb PM (addr_or_default w r sender)) (ind (String.eqb (p_lp p) d) shares).
Proof.
  intros Hs Hagg H Hp Hty Hsup0.
  destruct (leaf_tx_full _ _ _ _ _ _ H) as (wa & w2 & msgs & Hsa & Hsup & Eh & Hfull).
  apply handle_ok_typed in Eh. destruct Eh as (Eh & _ & Hwm).
  unfold handle_typed in Eh. cbn [String.eqb EM FC PM FM Ascii.eqb Bool.eqb] in Eh.
  apply bind_ok in Eh. destruct Eh as [[s1 msgs1] [Hx Eh]]. inversion Eh; subst w2 msgs; clear Eh. cbn [pm_execute] in Hx.
  destruct Hsa as (Hsa0 & Hsa1 & Hval & Hsa3 & Hsa4 & Hpma & Hsa6).
  assert (Hpa : pool_find (w_pm wa) pid = Ok p) by (rewrite Hpma; exact Hp).
  assert (Hsupa : supply (w_bank wa) (p_lp p) = 0) by (rewrite Hsup; exact Hsup0).
  destruct (provide_plain_first _ _ _ _ _ _ _ _ _ _ _ _ _ _ Hagg Hx Hpa Hty Hsupa) as (shares & Hsh & Hm & Hres).
  assert (Hr : addr_or_default wa r sender = addr_or_default w r sender) by (unfold addr_or_default, addr_valid; rewrite Hval; reflexivity).
  rewrite Hr in Hm.
  assert (Hsp : String.eqb PM sender = false) by (apply String.eqb_neq; congruence).
  subst msgs1. exists shares.
  destruct (Hfull eq_refl) as [(_ & _ & _ & _ & _ & Hpm' & _) Hbal]. cbn [w_pm set_pm] in Hpm'.
  split.
  { exact Hsh. }
  intros d. unfold slackP. rewrite Hpm', Hres, Hpma, (Hbal PM d).
  cbn [app leaves_eff leaf_eff plain sm_msg camt denom_of amount_of fst snd].
  rewrite Hsp, String.eqb_refl. unfold ind. destruct (String.eqb PM (addr_or_default w r sender)), (String.eqb (p_lp p) d); lia.
Qed.

(* ... and it stays locked: in every world of every continuation of the history, the pool manager holds at least
   MINIMUM_LIQUIDITY_AMOUNT of that LP denom beyond all pools' reserves (nobody, by any sequence of operations, calls between
   the contracts, single-asset provisions, locked deposits, faults, can get it out) *)
Theorem first_deposit_locks_forever w sender funds ls ss r pid l d0 d1 rest p ops :
  pool_custody w ->
  op_okP (Tx sender PM (WPm (PmProvide ls ss r pid None l)) funds) ->
  aggregate_coins funds = Ok (d0 :: d1 :: rest) ->
  snd (step w (Tx sender PM (WPm (PmProvide ls ss r pid None l)) funds)) = true ->
  pool_find (w_pm w) pid = Ok p -> p_type p = ConstantProduct -> supply (w_bank w) (p_lp p) = 0 ->
  Forall op_okP ops ->
  MINIMUM_LIQUIDITY_AMOUNT <= slackP (run w (Tx sender PM (WPm (PmProvide ls ss r pid None l)) funds :: ops)) (p_lp p).
Proof.
  intros Hc Hok Hagg Hacc Hp Hty Hsup Hops.
  pose proof (step_pool_custody w _ Hok Hc) as Hc1.
  cbn [run fold_left]. apply (locked_stays_locked ops _ _ _ Hops Hc1).
  cbn [step] in *. destruct (run_tx w sender PM (WPm (PmProvide ls ss r pid None l)) funds) as [w'|e] eqn:E; cbn [fst snd] in *; [|discriminate].
  destruct Hok as [Hs _].
  destruct (first_deposit_tx _ _ _ _ _ _ _ _ _ _ _ _ _ Hs Hagg E Hp Hty Hsup) as (shares & Hsh & Hsl).
  destruct Hc as (_ & Hbk & _). specialize (Hbk (p_lp p)). specialize (Hsl (p_lp p)).
  unfold slackP in *. cbn [w_bank w_pm set_fault]. rewrite String.eqb_refl in Hsl. unfold ind in Hsl.
  destruct (String.eqb PM (addr_or_default w r sender)); lia.
Qed.
