(* C12, reverse quotes on constant-product pools: for ask amounts up to 10^18 units, offering ONE UNIT MORE than
   ReverseSimulation quotes always yields at least the requested amount (net of all fees). Above that size the 18-digit
   truncation of 1/(1 - fees) lets the quote fall short by more than a unit: finding F-rev18. *)
From Coq Require Import ZArith List String Lia Bool.
From MD.Model Require Import Base PoolMath Types.
From MD.Proofs Require Import Tactics Arith PoolMathProofs EmissionBound ReverseCore.
(* divisions are treated as atoms by lia in this file (the arithmetic core is proved in ReverseCore.v) *)
Ltac Zify.zify_post_hook ::= idtac.
Import ListNotations.
Open Scope Z_scope.

(* ---------- the model's functions ---------- *)
Definition total_share (f : pool_fee) : Z := swap_fee f + protocol_fee f + burn_fee f + sumZ (extra_fees f).

Lemma fold_cadd_sum l : forall acc r, foldM (fun acc e => cadd U256_MAX acc e) l acc = Ok r -> r = acc + sumZ l /\ (l <> [] -> 0 <= r).
Proof.
  induction l as [|x xs IH]; intros acc r H; cbn [foldM sumZ] in *; [inversion H; split; [lia | congruence]|].
  apply bind_ok in H. destruct H as [a1 [H1 H]]. unfold cadd in H1. apply chk_ok in H1. destruct H1 as [-> Hr1].
  destruct (IH _ _ H) as [A B]. split; [lia|]. intros _. destruct xs; [cbn in A; lia | apply B; discriminate].
Qed.

Lemma extra_sum_le shares r : extra_sum shares r <= r * sumZ shares / DEC.
Proof.
  induction shares as [|s t IH]; cbn [extra_sum sumZ]; [rewrite Z.mul_0_r, Z.div_0_l by (unfold DEC; lia); lia|].
  pose proof (div_add_le (r * s) (r * sumZ t) DEC ltac:(unfold DEC; lia)).
  replace (r * (s + sumZ t)) with (r * s + r * sumZ t) by lia. lia.
Qed.

Lemma nested_floor n d : 0 < d -> n * DEC / d / DEC = n / d.
Proof. intros Hd. rewrite Z.div_div by (unfold DEC; lia). rewrite Z.div_mul_cancel_r by (unfold DEC; lia). reflexivity. Qed.

(* what ReverseSimulation quotes *)
Lemma compute_offer_amount_shape X Y a f oc :
  compute_offer_amount X Y a f = Ok oc ->
  let F := total_share f in let inv := DEC * DEC / (DEC - F) in let bc := a * inv / DEC in
  0 <= F < DEC /\ 1 <= Y - bc - 1 /\ oc_offer oc = X * Y / (Y - bc - 1) - X.
Proof.
  unfold compute_offer_amount. intros H.
  apply bind_ok in H. destruct H as [f1 [H1 H]]. unfold cadd in H1. apply chk_ok in H1. destruct H1 as [Ef1 Hf1].
  apply bind_ok in H. destruct H as [f2 [H2 H]]. unfold cadd in H2. apply chk_ok in H2. destruct H2 as [Ef2 Hf2].
  apply bind_ok in H. destruct H as [fees [Hfe H]]. apply fold_cadd_sum in Hfe. destruct Hfe as [Efees Hfe0].
  apply bind_ok in H. destruct H as [om [Hom H]]. unfold csub in Hom. apply chk_ok in Hom. destruct Hom as [Eom Homr].
  apply bind_ok in H. destruct H as [inv [Hinv H]]. unfold dec_from_ratio in Hinv.
  destruct (om =? 0) eqn:E0; [discriminate|]. apply chk_ok in Hinv. destruct Hinv as [Einv _].
  apply bind_ok in H. destruct H as [aa [Haa H]]. unfold dec_from_ratio in Haa. change (1 =? 0) with false in Haa. cbv iota in Haa.
  apply chk_ok in Haa. destruct Haa as [Eaa _]. rewrite Z.div_1_r in Eaa.
  apply bind_ok in H. destruct H as [bcd [Hbc H]]. unfold dec_mul in Hbc. apply chk_ok in Hbc. destruct Hbc as [Ebcd _].
  apply bind_ok in H. destruct H as [d1 [Hd1 H]]. unfold csub in Hd1. apply chk_ok in Hd1. destruct Hd1 as [Ed1 _].
  apply bind_ok in H. destruct H as [d2 [Hd2 H]]. unfold csub in Hd2. apply chk_ok in Hd2. destruct Hd2 as [Ed2 Hd2r].
  apply bind_ok in H. destruct H as [q [Hq H]]. unfold mul_ratio in Hq.
  destruct (d2 =? 0) eqn:Ed; [discriminate|]. apply chk_ok in Hq. destruct Hq as [Eq _]. rewrite Z.mul_1_l in Eq.
  apply bind_ok in H. destruct H as [off [Hoff H]]. unfold csub in Hoff. apply chk_ok in Hoff. destruct Hoff as [Eoff _].
  apply bind_ok in H. destruct H as [oa [_ H]].
  apply bind_ok in H. destruct H as [rate [_ H]].
  apply bind_ok in H. destruct H as [bs [_ H]].
  apply bind_ok in H. destruct H as [s [_ H]].
  apply bind_ok in H. destruct H as [p [_ H]].
  apply bind_ok in H. destruct H as [b [_ H]].
  apply bind_ok in H. destruct H as [e [_ H]].
  apply bind_ok in H. destruct H as [o' [Ho' H]]. apply chk_ok in Ho'. destruct Ho' as [Eo' _].
  apply bind_ok in H. destruct H as [sl' [_ H]].
  apply bind_ok in H. destruct H as [s' [_ H]].
  apply bind_ok in H. destruct H as [p' [_ H]].
  apply bind_ok in H. destruct H as [b' [_ H]].
  apply bind_ok in H. destruct H as [e' [_ H]].
  assert (Hoc : oc_offer oc = o') by (injection H as Hx; rewrite <- Hx; reflexivity). clear H.
  cbv zeta. unfold total_share.
  assert (EF : fees = swap_fee f + protocol_fee f + burn_fee f + sumZ (extra_fees f)) by (rewrite Efees, Ef2, Ef1; reflexivity).
  assert (HF0 : 0 <= fees).
  { destruct (extra_fees f) as [|x xs] eqn:Ex; [rewrite Efees, Ef2; cbn [sumZ]; lia | apply Hfe0; discriminate]. }
  rewrite <- EF.
  assert (Ebc : dec_floor bcd = a * (DEC * DEC / (DEC - fees)) / DEC).
  { unfold dec_floor. rewrite Ebcd, Eaa, mul_DEC_div, Einv, Eom. reflexivity. }
  rewrite <- Ebc.
  split; [lia|]. split; [lia|]. rewrite Hoc, Eo', Eoff, Eq, Ed2, Ed1. reflexivity.
Qed.

(* THE THEOREM: on a constant-product pool with reserves X (offer side) and Y (ask side) and any fee setting, for a requested
   amount a <= 10^18: if ReverseSimulation quotes oc, then the swap of oc_offer + 1 (computed as compute_swap does:
   gross = floor(Y o / (X + o)), fees floored one by one, net = gross - fees) returns at least a. *)
Theorem reverse_quote_plus_one_suffices X Y a f oc ra fc slip sc :
  0 <= X -> 0 <= Y -> 0 <= a <= DEC ->
  compute_offer_amount X Y a f = Ok oc ->
  let o := oc_offer oc + 1 in
  dec_from_ratio U256_MAX (Y * o) (X + o) = Ok ra ->
  compute_fees f (dec_floor ra) = Ok fc ->
  get_swap_computation (dec_floor ra) slip fc = Ok sc ->
  a <= sc_return sc.
Proof.
  intros HX HY Ha Hq o Hra Hfc Hsc.
  destruct (compute_offer_amount_shape _ _ _ _ _ Hq) as (HF & Hd2 & Hoff). cbv zeta in HF, Hd2, Hoff.
  set (F := total_share f) in *. set (inv := DEC * DEC / (DEC - F)) in *. set (bc := a * inv / DEC) in *.
  set (q := X * Y / (Y - bc - 1)) in *.
  assert (Ho : o = q - X + 1) by (unfold o; rewrite Hoff; reflexivity).
  assert (Hq0 : 0 <= q) by (unfold q; apply Z.div_pos; [apply Z.mul_nonneg_nonneg; assumption | lia]).
  unfold dec_from_ratio in Hra. destruct (X + o =? 0) eqn:E0; [discriminate|]. apply chk_ok in Hra. destruct Hra as [-> _].
  assert (Hpos : 0 < X + o) by lia.
  unfold dec_floor in Hfc, Hsc. rewrite (nested_floor _ _ Hpos) in Hfc, Hsc.
  set (r := Y * o / (X + o)) in *.
  destruct (compute_fees_spec _ _ _ Hfc) as (Fs & Fp & Fb & Fe).
  destruct (get_swap_computation_spec _ _ _ _ Hsc) as (Hret & _ & _ & _ & _ & _ & _ & Hs0 & Hp0 & Hb0 & He0).
  rewrite Hret.
  replace (r - fc_swap fc - fc_protocol fc - fc_burn fc - fc_extra fc) with (r - (fc_swap fc + fc_protocol fc + fc_burn fc + fc_extra fc)) by lia.
  apply (reverse_core DEC F X Y a inv bc (Y - bc - 1) q o r); try reflexivity; try assumption; try (unfold DEC; lia).
  split; [lia|].
  rewrite Fs, Fp, Fb, Fe. pose proof (extra_sum_le (extra_fees f) r) as He.
  assert (HD : 0 < DEC) by (unfold DEC; lia).
  pose proof (div_add_le (r * swap_fee f) (r * protocol_fee f) DEC HD) as A1.
  pose proof (div_add_le (r * swap_fee f + r * protocol_fee f) (r * burn_fee f) DEC HD) as A2.
  pose proof (div_add_le (r * swap_fee f + r * protocol_fee f + r * burn_fee f) (r * sumZ (extra_fees f)) DEC HD) as A3.
  unfold F, total_share.
  replace (r * (swap_fee f + protocol_fee f + burn_fee f + sumZ (extra_fees f)))
    with (r * swap_fee f + r * protocol_fee f + r * burn_fee f + r * sumZ (extra_fees f)) by lia.
  lia.
Qed.
