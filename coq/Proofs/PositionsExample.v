(* PositionsExample.v — the hypotheses of the C08 history theorems are met by a real history (kernel-evaluated):
   alice's closed position "u-p" sits through what bob and carol do (attempts to lock into it through the pool
   manager, to close it, to withdraw it; their own positions; a claim; days passing) and she then withdraws it in full. *)
From MD.Model Require Import Base Ownable Epoch PoolMath Types PoolManager FarmManager Chain.
From MD.Proofs Require Import MapLemmas FarmProofs FarmCustody PositionsSafe NonVacuity.

Definition pre0 : list op := ops0 ++ [Tx "alice" "FM" (WFm (FmPosClose "u-p" None)) []].
Definition others0 : list op :=
  [ Tx "bob" "PM" (WPm (PmProvide None None None "o.a" (Some 86400) (Some "u-p"))) [("uom", 1000); ("uusd", 2000)];
    Tx "bob" "FM" (WFm (FmPosWithdraw "u-p" None)) [];
    Tx "bob" "FM" (WFm (FmPosWithdraw "u-p" (Some true))) [];
    Tx "bob" "FM" (WFm (FmPosClose "u-p" None)) [];
    Tx "bob" "FM" (WFm (FmPosExpand "u-p")) [(lp0, 5)];
    Tx "carol" "FM" (WFm (FmPosCreate (Some "p") 86400 None)) [(lp0, 7)];   (* "u-p" is taken: rejected *)
    Tx "carol" "FM" (WFm (FmPosCreate (Some "c") 86400 None)) [(lp0, 7)];
    Tx "bob" "PM" (WPm (PmProvide None None None "o.a" (Some 86400) None)) [("uom", 1000); ("uusd", 2000)];
    Tx "bob" "FM" (WFm (FmPosCreate (Some "x") 86400 (Some "alice"))) [(lp0, 5)];
    SetBlock (day 5);
    Tx "bob" "FM" (WFm (FmClaim None)) [] ].

(* everything decidable about the example, evaluated by the kernel: genesis succeeds; after [pre0] alice owns the closed
   position "u-p" holding 500000 LP; after [others0] carol owns a position (the history is not just rejections), the
   unlock instant has passed, and alice's withdrawal succeeds and pays her exactly 500000 LP *)
Definition positions_check : bool :=
  match genesis_world g0 with
  | Err _ => false
  | Ok w0 =>
      let w1 := run w0 pre0 in
      let w2 := run w1 others0 in
      match sfind pos_id "u-p" (fm_positions (w_fm w1)), withdraw_position w2 "alice" [] "u-p" None with
      | Some q, Ok (s', msgs) =>
          (String.eqb (pos_recv q) "alice" && negb (pos_open q) && (amount_of (pos_lp q) =? 500000) &&
          (match pos_exp q with Some e => e <=? seconds (w_block w2) | None => false end) &&
          existsb (fun c => String.eqb (pos_recv c) "carol") (fm_positions (w_fm w2)) &&
          (FarmCustody.out_amt msgs lp0 =? 500000) && (Z.of_nat (List.length msgs) =? 1) &&
          (match sfind pos_id "u-p" (fm_positions s') with None => true | Some _ => false end))%bool
      | _, _ => false
      end
  end.

Definition positions_statement : Prop :=
  positions_check = true /\
  0 <= amount_of (fm_create_fee (g_fm g0)) /\
  Forall (not_signed_by "alice") others0 /\
  "alice" <> EM /\ "alice" <> FC /\ "alice" <> PM /\ "alice" <> FM.

Lemma positions_example : positions_statement.
Proof.
  unfold positions_statement.
  split; [vm_compute; reflexivity|].
  split; [vm_compute; discriminate|].
  split. { unfold others0. repeat constructor; cbn; discriminate. }
  repeat split; discriminate.
Qed.

(* ---------- C15 over histories: the hypotheses are met by a real history ---------- *)
From MD.Proofs Require Import OwnersOnly.

(* everything the others did in [ops0] (the owner's own transaction removed), followed by their attempts at every
   privileged message of every contract *)
Definition takeover0 : list op :=
  filter (fun op => match op with Tx s _ _ _ => negb (String.eqb s "owner") | _ => true end) ops0 ++
  [ Tx "bob" "PM" (WPm (PmUpdateConfig (Some "bob") None None None)) [];
    Tx "bob" "PM" (WPm (PmUpdateConfig None None None (Some {| ft_pool := "o.a"; ft_swaps := Some false; ft_deposits := None; ft_withdrawals := None |}))) [];
    Tx "bob" "PM" (WPm (PmOwnership (Transfer "bob" None))) [];
    Tx "bob" "PM" (WPm (PmOwnership Accept)) [];
    Tx "bob" "PM" (WPm (PmOwnership Renounce)) [];
    Tx "carol" "FM" (WFm (FmOwnership (Transfer "carol" None))) [];
    Tx "carol" "FM" (WFm (FmOwnership Accept)) [];
    Tx "carol" "FM" (WFm (FmUpdateConfig {| u_fee_collector := Some "carol"; u_epoch_manager := None; u_pool_manager := Some "carol";
         u_create_fee := None; u_max_farms := None; u_epoch_buffer := None; u_min_unlock := None; u_max_unlock := None;
         u_expiration := None; u_penalty := None |})) [];
    Tx "alice" "EM" (WEm (EmUpdateConfig None)) [];
    Tx "alice" "EM" (WEm (EmUpdateOwnership Accept)) [];
    Tx "alice" "FC" (WFc Renounce) [];
    Tx "alice" "FC" (WFc (Transfer "alice" None)) [] ].

Definition settled_b (o : string) (own : ownership) : bool :=
  match owner own, pending_owner own with Some x, None => String.eqb x o | _, _ => false end.

Definition owners_check : bool :=
  match genesis_world g0 with
  | Err _ => false
  | Ok w0 =>
      settled_b "owner" (em_own (w_em w0)) && settled_b "owner" (w_fc w0) &&
      settled_b "owner" (pm_own (w_pm w0)) && settled_b "owner" (fm_own (w_fm w0)) &&
      (* the history is not just rejections: pools, positions and farms exist afterwards *)
      let w := run w0 takeover0 in
      negb (Nat.eqb (List.length (pm_pools (w_pm w))) 0) && negb (Nat.eqb (List.length (fm_positions (w_fm w))) 0) &&
      negb (Nat.eqb (List.length (fm_farms (w_fm w))) 0)
  end.

Definition owners_statement : Prop :=
  owners_check = true /\ Forall (not_signed_by "owner") takeover0 /\
  "owner" <> EM /\ "owner" <> FC /\ "owner" <> PM /\ "owner" <> FM.

Lemma settled_b_ok o own : settled_b o own = true -> settled o own.
Proof.
  unfold settled_b, settled. destruct (owner own) as [x|]; [|discriminate]. destruct (pending_owner own); [discriminate|].
  intros H. apply String.eqb_eq in H. subst. auto.
Qed.

Lemma owners_example : owners_statement.
Proof.
  unfold owners_statement.
  split; [vm_compute; reflexivity|].
  split. { vm_compute. repeat constructor; discriminate. }
  repeat split; discriminate.
Qed.

(* ---------- C17 / C15 over histories: the switches ---------- *)
From MD.Proofs Require Import SwitchesSafe.

(* in [ops0] the owner disabled swaps on pool "o.b"; afterwards the others try to switch it back on, to trade on it,
   and to take over the pool manager *)
Definition switch_attempts0 : list op :=
  [ Tx "bob" "PM" (WPm (PmUpdateConfig None None None (Some {| ft_pool := "o.b"; ft_swaps := Some true; ft_deposits := None; ft_withdrawals := None |}))) [];
    Tx "bob" "PM" (WPm (PmOwnership (Transfer "bob" None))) [];
    Tx "bob" "PM" (WPm (PmOwnership Accept)) [];
    Tx "carol" "PM" (WPm (PmProvide None None None "o.b" None None)) [("uusdc", 1000000); ("uusd", 1000000)];
    Tx "bob" "PM" (WPm (PmSwap "uusd" None (Some 500000000000000000) None "o.b")) [("uusdc", 1000)];
    Tx "bob" "PM" (WPm (PmSwap "uusd" None (Some 500000000000000000) None "o.a")) [("uom", 1000)] ].

Definition switches_check : bool :=
  match genesis_world g0 with
  | Err _ => false
  | Ok w0 =>
      let w1 := run w0 ops0 in
      let w2 := run w1 switch_attempts0 in
      settled_b "owner" (pm_own (w_pm w1)) &&
      match sfind p_id "o.b" (pm_pools (w_pm w1)), sfind p_id "o.b" (pm_pools (w_pm w2)) with
      | Some p, Some p' =>
          negb (swaps_enabled (p_status p)) && deposits_enabled (p_status p) &&
          negb (swaps_enabled (p_status p')) && deposits_enabled (p_status p') &&
          (* carol's deposit into the pool went through (its reserves grew), the swap on it did not *)
          forallb (fun c => 0 <? amount_of c) (p_assets p') && forallb (fun c => amount_of c =? 0) (p_assets p)
      | _, _ => false
      end
  end.

Definition switches_statement : Prop :=
  switches_check = true /\ Forall (not_signed_by "owner") switch_attempts0.

Lemma switches_example : switches_statement.
Proof.
  split; [vm_compute; reflexivity|]. unfold switch_attempts0. repeat constructor; cbn; discriminate.
Qed.

(* ---------- C11 over histories: nobody else can touch a farm ---------- *)
From MD.Proofs Require Import FarmCustodyChain FarmsSafe.

Definition farm_pre0 : list op := firstn 10 ops0.       (* ... up to carol's creation of farm "m-f" (4000 uusdc, epochs 1-5) *)
Definition farm_others0 : list op :=
  [ Tx "bob" "FM" (WFm (FmExpandFarm {| fp_lp := lp0; fp_start := None; fp_end := None; fp_asset := ("uusdc", 1000); fp_id := Some "m-f" |})) [("uusdc", 1000)];
    Tx "bob" "FM" (WFm (FmCloseFarm "m-f")) [];
    Tx "bob" "FM" (WFm (FmCreateFarm {| fp_lp := lp0; fp_start := Some 1; fp_end := Some 5; fp_asset := ("uusdc", 4000); fp_id := Some "f" |})) [("uom", 1000); ("uusdc", 4000)];
    Tx "bob" "FM" (WFm (FmCreateFarm {| fp_lp := lp0; fp_start := Some 1; fp_end := Some 5; fp_asset := ("uusdc", 4000); fp_id := Some "g" |})) [("uom", 1000); ("uusdc", 4000)];
    SetBlock (day 1); SetBlock (day 2);
    Tx "alice" "FM" (WFm (FmClaim None)) [] ].

Definition farms_check : bool :=
  match genesis_world g0 with
  | Err _ => false
  | Ok w0 =>
      let w1 := run w0 farm_pre0 in
      let w2 := run w1 farm_others0 in
      match sfind f_id "m-f" (fm_farms (w_fm w1)), sfind f_id "m-f" (fm_farms (w_fm w2)) with
      | Some f, Some f' =>
          (String.eqb (f_owner f) "carol" && String.eqb (f_owner f') "carol" &&
           (amount_of (f_asset f) =? 4000) && (amount_of (f_asset f') =? 4000) && (f_end f' =? f_end f) &&
           (f_claimed f =? 0) && (0 <? f_claimed f') &&
           (* bob's own farm "m-g" got through: the history is not just rejections *)
           match sfind f_id "m-g" (fm_farms (w_fm w2)) with Some g => String.eqb (f_owner g) "bob" | None => false end)%bool
      | _, _ => false
      end
  end.

Definition farms_statement : Prop :=
  farms_check = true /\ 0 <= amount_of (fm_create_fee (g_fm g0)) /\
  Forall op_ok farm_pre0 /\ Forall (not_signed_by "carol") farm_others0 /\
  "carol" <> EM /\ "carol" <> FC /\ "carol" <> PM /\ "carol" <> FM.

Lemma farms_example : farms_statement.
Proof.
  unfold farms_statement.
  split; [vm_compute; reflexivity|].
  split; [vm_compute; discriminate|].
  split. { vm_compute. repeat constructor; discriminate. }
  split. { unfold farm_others0. repeat constructor; cbn; discriminate. }
  repeat split; discriminate.
Qed.

(* ---------- C05 / C08: the withdrawal TRANSACTION of the closed position goes through ---------- *)
From MD.Proofs Require Import Redeemable.

Definition redeem_check : bool :=
  match genesis_world g0 with
  | Err _ => false
  | Ok w0 =>
      let w2 := run (run w0 pre0) others0 in
      match w_fault w2, run_tx w2 "alice" FM (WFm (FmPosWithdraw "u-p" None)) [] with
      | None, Ok w3 =>
          (bal (w_bank w3) "alice" lp0 =? bal (w_bank w2) "alice" lp0 + 500000) &&
          (bal (w_bank w3) FM lp0 =? bal (w_bank w2) FM lp0 - 500000) &&
          (0 <=? bal (w_bank w2) "alice" lp0) && (bal (w_bank w2) "alice" lp0 + 500000 <=? U128_MAX)
      | _, _ => false
      end
  end.

Definition redeem_statement : Prop :=
  redeem_check = true /\ Forall op_ok (pre0 ++ others0).

Lemma redeem_example : redeem_statement.
Proof.
  split; [vm_compute; reflexivity|]. vm_compute. repeat constructor; discriminate.
Qed.

(* ---------- C06 / C07 over histories: the claim cursor ---------- *)
From MD.Proofs Require Import CursorSafe.

(* after [ops0] alice's cursor is 2 (she claimed in epoch 2); bob and carol then stake, wait, claim, close *)
Definition cursor_others0 : list op :=
  [ Tx "carol" "FM" (WFm (FmPosCreate (Some "c") 86400 None)) [(lp0, 7)];
    Tx "bob" "FM" (WFm (FmClaim None)) [];
    SetBlock (day 3);
    Tx "bob" "FM" (WFm (FmClaim None)) [];
    Tx "carol" "FM" (WFm (FmClaim (Some 3))) [];
    Tx "bob" "FM" (WFm (FmPosClose "p-1" None)) [];
    SetBlock (day 4);
    Tx "carol" "FM" (WFm (FmClaim None)) [] ].

Definition cursor_check : bool :=
  match genesis_world g0 with
  | Err _ => false
  | Ok w0 =>
      let w1 := run w0 ops0 in
      let w2 := run w1 cursor_others0 in
      match cursor (w_fm w1) "alice", cursor (w_fm w2) "alice", cursor (w_fm w1) "carol", cursor (w_fm w2) "carol" with
      | Some 2, Some 2, None, Some 4 => accepted_all w1 cursor_others0      (* carol's own cursor did move; all accepted *)
      | _, _, _, _ => false
      end
  end.

Definition cursor_statement : Prop :=
  cursor_check = true /\ Forall (not_signed_by "alice") cursor_others0.

Lemma cursor_example : cursor_statement.
Proof.
  split; [vm_compute; reflexivity|]. unfold cursor_others0. repeat constructor; cbn; discriminate.
Qed.
