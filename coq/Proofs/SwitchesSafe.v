(* SwitchesSafe.v — C17 / C15 over histories: while the pool manager's ownership is settled (owner o, no transfer
   pending), through any history of operations that o does not sign every pool keeps its three feature switches
   exactly as they are: what the owner disabled stays disabled, what is enabled stays enabled, whatever the others do. *)
From MD.Model Require Import Base Ownable Epoch PoolMath Types PoolManager FarmManager Chain.
From MD.Proofs Require Import Tactics MapLemmas PoolMathProofs ChainProofs PmProofs SwapProofs AuthProofs PositionsSafe OwnersOnly.

Definition same_sw (p p' : pool_info) : Prop := p_id p' = p_id p /\ p_status p' = p_status p.

Definition switches_kept (s s' : pm_state) : Prop :=
  forall id p, sfind p_id id (pm_pools s) = Some p ->
    exists p', sfind p_id id (pm_pools s') = Some p' /\ same_sw p p'.

Lemma same_sw_refl p : same_sw p p.
Proof. split; reflexivity. Qed.
Lemma switches_kept_refl s : switches_kept s s.
Proof. intros id p H. exists p. split; [exact H | apply same_sw_refl]. Qed.
Lemma switches_kept_trans a b c : switches_kept a b -> switches_kept b c -> switches_kept a c.
Proof.
  intros H1 H2 id p Hp. destruct (H1 _ _ Hp) as (p1 & F1 & S1). destruct (H2 _ _ F1) as (p2 & F2 & S2).
  exists p2. split; [exact F2|]. unfold same_sw in *. intuition congruence.
Qed.
Lemma switches_kept_eq s s' : pm_pools s' = pm_pools s -> switches_kept s s'.
Proof. intros E id p H. rewrite E. exists p. split; [exact H | apply same_sw_refl]. Qed.

Lemma switches_kept_save s p p2 :
  sfind p_id (p_id p) (pm_pools s) = Some p -> same_sw p p2 ->
  switches_kept s (pm_save_pool s p2).
Proof.
  intros Hp Hs id q Hq. unfold pm_save_pool, pm_with_pools; cbn [pm_pools].
  assert (Hid : p_id p2 = p_id p) by (destruct Hs; assumption).
  destruct (String.eqb id (p_id p2)) eqn:E.
  - apply String.eqb_eq in E. subst id. rewrite (sfind_sinsert_same p_id p2). exists p2. split; [reflexivity|].
    rewrite Hid, Hp in Hq. inversion Hq; subst. exact Hs.
  - apply String.eqb_neq in E. rewrite (sfind_sinsert_other p_id id p2) by exact E.
    exists q. split; [exact Hq | apply same_sw_refl].
Qed.

Lemma switches_kept_insert_fresh s p l :
  sfind p_id (p_id p) (pm_pools s) = None -> l = sinsert p_id p (pm_pools s) ->
  forall s', pm_pools s' = l -> switches_kept s s'.
Proof.
  intros Hn -> s' E id q Hq. rewrite E.
  assert (id <> p_id p) by (intros C; subst; congruence).
  rewrite (sfind_sinsert_other p_id id p) by assumption. exists q. split; [exact Hq | apply same_sw_refl].
Qed.

(* one pool-manager message from anybody but the owner *)
Lemma pm_execute_switches_kept w sender funds m s' msgs o :
  pm_execute w sender funds m = Ok (s', msgs) ->
  settled o (pm_own (w_pm w)) -> sender <> o ->
  switches_kept (w_pm w) s'.
Proof.
  intros H Hset Hs.
  destruct m as [denoms decimals fees pt oid | ls ss r pid u l | ask bp ms r pid | pid | a | ops mr r ms | fc fm fee t];
    cbn [pm_execute] in H.
  - apply create_pool_shape in H. destruct H as (p & Hfresh & Hpools & _).
    eapply switches_kept_insert_fresh; eauto.
  - apply provide_shape in H. destruct H as (p & Hp & _ & [[b ->] | [a ->]]).
    + apply switches_kept_eq. reflexivity.
    + eapply switches_kept_save; [exact (pool_find_id _ _ _ Hp) | split; reflexivity].
  - apply swap_spec in H. destruct H as (p & offer & sc & _ & _ & _ & _ & Hps & _).
    apply perform_swap_spec in Hps. destruct Hps as (p0 & oi & ai & oc & ac & od & ad & Hp & _ & _ & _ & _ & _ & ->).
    eapply switches_kept_save; [exact (pool_find_id _ _ _ Hp) | split; reflexivity].
  - apply withdraw_shape in H. destruct H as (p & a & Hp & _ & ->).
    eapply switches_kept_save; [exact (pool_find_id _ _ _ Hp) | split; reflexivity].
  - inv_all. apply switches_kept_eq. reflexivity.
  - apply exec_ops_spec in H. destruct H as (lst & f & amount & out & fee_msgs & _ & _ & _ & _ & Hr & _).
    clear - Hr. revert Hr. generalize (w_pm w) as s. generalize (so_in f, amount) as prev. generalize (@nil submsg) as fm0.
    induction ops as [|o0 r0 IH]; intros fm0 prev s Hr.
    + cbn in Hr. inversion Hr; subst. apply switches_kept_refl.
    + apply route_loop_cons in Hr. destruct Hr as (s1 & sc & Hps & Hr).
      eapply switches_kept_trans; [|eapply IH; exact Hr].
      apply perform_swap_spec in Hps. destruct Hps as (p0 & oi & ai & oc & ac & od & ad & Hp & _ & _ & _ & _ & _ & ->).
      eapply switches_kept_save; [exact (pool_find_id _ _ _ Hp) | split; reflexivity].
  - exfalso. apply (pm_privileged_auth w sender funds (PmUpdateConfig fc fm fee t)) in H. destruct H as (_ & Ho & _).
    destruct Hset as [Hso _]. congruence.
Qed.

Lemma pm_reply_switches_kept w id s' msgs :
  pm_reply w id = Ok (s', msgs) -> switches_kept (w_pm w) s'.
Proof. unfold pm_reply. intros H. inv_all. apply switches_kept_eq. reflexivity. Qed.

(* ---------- over histories ---------- *)
Definition sw_rel (o : string) (a b : world) : Prop :=
  settled o (pm_own (w_pm a)) -> pm_own (w_pm b) = pm_own (w_pm a) /\ switches_kept (w_pm a) (w_pm b).

Lemma sw_rel_same_pm o a b : w_pm b = w_pm a -> sw_rel o a b.
Proof. intros E _. rewrite E. split; [reflexivity | apply switches_kept_refl]. Qed.

Theorem switches_move_only_by_the_owner o ops w :
  o <> EM -> o <> FC -> o <> PM -> o <> FM ->
  Forall (not_signed_by o) ops ->
  settled o (pm_own (w_pm w)) ->
  forall id p, sfind p_id id (pm_pools (w_pm w)) = Some p ->
    exists p', sfind p_id id (pm_pools (w_pm (run w ops))) = Some p' /\ p_id p' = p_id p /\ p_status p' = p_status p.
Proof.
  intros H1 H2 H3 H4 Hall Hset.
  assert (HR : sw_rel o w (run w ops)).
  { apply (run_RS o H1 H2 H3 H4 (sw_rel o)); try exact Hall.
    - intros x. apply sw_rel_same_pm. reflexivity.
    - intros a b c Hab Hbc Ha. destruct (Hab Ha) as [E K1].
      assert (Hb : settled o (pm_own (w_pm b))) by (rewrite E; exact Ha).
      destruct (Hbc Hb) as [E2 K2]. split; [congruence | eapply switches_kept_trans; eauto].
    - intros x y (_ & _ & _ & _ & _ & Hpm & _). apply sw_rel_same_pm. exact Hpm.
    - intros x t s f m w2 subs Hs H Hx.
      pose proof H as H'. apply handle_ok_typed in H'. destruct H' as [H' _]. unfold handle_typed in H'.
      destruct (String.eqb t EM); [destruct m; inv_all; split; [reflexivity | apply switches_kept_refl]|].
      destruct (String.eqb t FC); [destruct m; inv_all; split; [reflexivity | apply switches_kept_refl]|].
      destruct (String.eqb t PM).
      { destruct m as [| |pm|]; try discriminate. apply bind_ok in H'. destruct H' as [[s1 subs1] [Hp H']].
        inversion H'; subst. cbn [w_pm set_pm]. split.
        - eapply pm_execute_own_cfg; eauto.
        - eapply pm_execute_switches_kept; eauto. }
      destruct (String.eqb t FM); [|discriminate].
      destruct m as [| | |fm]; try discriminate. apply bind_ok in H'. destruct H' as [[s1 subs1] [Hp H']].
      inversion H'; subst. split; [reflexivity | apply switches_kept_refl].
    - intros x c id w2 subs H Hx. unfold handle_reply in H.
      destruct (String.eqb c PM).
      { apply bind_ok in H. destruct H as [[s1 subs1] [Hp H]]. inversion H; subst. cbn [w_pm set_pm]. split.
        - unfold pm_reply in Hp. inv_all; reflexivity.
        - eapply pm_reply_switches_kept; eauto. }
      destruct (String.eqb c FM); [|discriminate].
      apply bind_ok in H. destruct H as [[s1 subs1] [Hp H]]. inversion H; subst. split; [reflexivity | apply switches_kept_refl].
    - intros x b. apply sw_rel_same_pm. reflexivity. }
  destruct (HR Hset) as [_ K]. intros id p Hp. destruct (K id p Hp) as (p' & F & S1 & S2). eauto.
Qed.
