(* TxBalances.v — C04 at transaction level: the complete effect of a direct swap on EVERY bank balance. *)
From MD.Model Require Import Base Ownable Epoch PoolMath Types PoolManager FarmManager Chain.
From MD.Proofs Require Import Tactics Arith PoolMathProofs MapLemmas BankProofs SwapProofs ChainProofs PmProofs LiquidityProofs
  AtomicProofs PoolCustody PoolCustodyChain SingleSided WeightProofs FarmProofs.

(* the effect of one bank / token-factory message of contract [c] on the balance of account [a] in denom [d] *)
Definition leaf_eff (c : string) (tf : list coin) (m : cmsg) (a d : string) : Z :=
  match m with
  | MBankSend to cs => - ind (String.eqb a c) (camt cs d) + ind (String.eqb a to) (camt cs d)
  | MBankBurn cs => - ind (String.eqb a c) (camt cs d)
  | MTfCreateDenom _ => - ind (String.eqb a c) (camt tf d)
  | MTfMint coin to => ind (String.eqb a to) (camt [coin] d)
  | MTfBurn coin => - ind (String.eqb a c) (camt [coin] d)
  | MWasm _ _ _ => 0
  end.
Fixpoint leaves_eff (c : string) (tf : list coin) (subs : list submsg) (a d : string) : Z :=
  match subs with [] => 0 | s :: r => leaf_eff c tf (sm_msg s) a d + leaves_eff c tf r a d end.

Lemma exec_leaf_bal w c m w1 fl a d :
  is_leaf m = true -> exec_leaf w c m = (Ok w1, fl) ->
  bal (w_bank w1) a d = bal (w_bank w) a d + leaf_eff c (w_tf_fee w) m a d.
Proof.
  intros Hl H. unfold leaf_eff.
  destruct m as [to amt|amt|sd|cn to|cn|t wm fs]; cbn [exec_leaf] in H; try discriminate;
    unfold bank_call, fault_tick in H; destruct (w_fault w) as [k|];
    try (destruct (k =? 0); [discriminate|]); cbn [w_bank set_fault w_tf_fee] in H.
  all: match type of H with
       | context [bank_send ?b ?f ?t ?cs] => destruct (bank_send b f t cs) as [b'|e] eqn:Eb; [|discriminate];
           inversion H; subst; cbn [w_bank set_bank set_fault]; apply bank_send_spec in Eb; destruct Eb as [_ Hb]; rewrite Hb; lia
       | context [bank_burn ?b ?f ?cs] => destruct (bank_burn b f cs) as [b'|e] eqn:Eb; [|discriminate];
           inversion H; subst; cbn [w_bank set_bank set_fault]; apply bank_burn_spec in Eb; destruct Eb as [_ Hb]; rewrite Hb; lia
       | context [bank_mint ?b ?t ?cs] => destruct (bank_mint b t cs) as [b'|e] eqn:Eb; [|discriminate];
           inversion H; subst; cbn [w_bank set_bank set_fault]; apply bank_mint_spec in Eb; destruct Eb as [_ Hb]; rewrite Hb; lia
       end.
Qed.

Lemma exec_leaves_bal subs : forall w c w1 fl a d,
  forallb plain_leaf subs = true -> exec_leaves w c subs = (Ok w1, fl) ->
  bal (w_bank w1) a d = bal (w_bank w) a d + leaves_eff c (w_tf_fee w) subs a d.
Proof.
  induction subs as [|s rest IH]; intros w c w1 fl a d H E; cbn [exec_leaves] in E.
  - inversion E; subst. cbn [leaves_eff]. lia.
  - cbn [forallb] in H. apply andb_true_iff in H. destruct H as [Hs Hr].
    unfold plain_leaf in Hs. apply andb_true_iff in Hs. destruct Hs as [Hl _].
    destruct (exec_leaf w c (sm_msg s)) as [[w2|e] fl2] eqn:E2; [|discriminate].
    rewrite (IH _ _ _ _ a d Hr E), (exec_leaf_bal _ _ _ _ _ a d Hl E2). cbn [leaves_eff].
    pose proof (exec_leaf_same _ _ _ _ _ Hl E2) as (_ & Htf & _). rewrite Htf. lia.
Qed.

(* C04: a direct swap, as a whole transaction: the sender pays the offer to the pool manager; out of the pool manager go
   exactly the return (to the chosen receiver), the protocol fee (to the fee collector) and the burn fee (destroyed);
   NOBODY ELSE'S BALANCE CHANGES, in any denom. The amounts are those of the Simulation on the state before. *)
Theorem swap_tx_balances w sender funds ask bp ms r pid w' :
  run_tx w sender PM (WPm (PmSwap ask bp ms r pid)) funds = Ok w' ->
  exists offer sc,
    one_coin funds = Ok offer /\ query_simulation (w_pm w) offer ask pid = Ok sc /\
    let recv := addr_or_default w r sender in
    let fc := pm_fee_collector (pm_cfg (w_pm w)) in
    forall a d,
      bal (w_bank w') a d = bal (w_bank w) a d
        - ind (String.eqb a sender) (camt funds d) + ind (String.eqb a PM) (camt funds d)
        - ind (String.eqb a PM) (ind (String.eqb ask d) (sc_return sc + sc_protocol_fee sc + sc_burn_fee sc))
        + ind (String.eqb a recv) (ind (String.eqb ask d) (sc_return sc))
        + ind (String.eqb a fc) (ind (String.eqb ask d) (sc_protocol_fee sc)).
Proof.
  intros H. unfold run_tx in H.
  destruct (process FUEL w sender [plain (MWasm PM (WPm (PmSwap ask bp ms r pid)) funds)]) as [[wx|ex] flx] eqn:Ep; cbn [fst] in H; [|discriminate].
  inversion H; subst wx; clear H. unfold FUEL in Ep.
  destruct (plain_call _ _ _ _ _ _ _ _ Ep) as (wa & fla & w2 & subs2 & fl2 & Eb & Eh & E2).
  apply handle_ok_typed in Eh. destruct Eh as (Eh & _ & _).
  unfold handle_typed in Eh. cbn [String.eqb EM FC PM FM Ascii.eqb Bool.eqb] in Eh.
  apply bind_ok in Eh. destruct Eh as [[s1 msgs1] [Hx Eh]]. inversion Eh; subst w2 subs2; clear Eh. cbn [pm_execute] in Hx.
  pose proof Hx as Hx'. apply swap_spec in Hx'. destruct Hx' as (p & offer & sc & _ & _ & Hone & _ & Hps & Hmsgs).
  (* the funds transfer *)
  assert (Htr : same_contracts w wa /\ forall a d, bal (w_bank wa) a d = bal (w_bank w) a d - ind (String.eqb a sender) (camt funds d) + ind (String.eqb a PM) (camt funds d)).
  { destruct funds as [|f0 fr].
    - inversion Eb; subst. split; [apply same_contracts_refl|]. intros a d. cbn [camt]. unfold ind. destruct (String.eqb a sender), (String.eqb a PM); lia.
    - split; [eapply bank_call_same; exact Eb|]. intros a d.
      unfold bank_call, fault_tick in Eb. destruct (w_fault w) as [k|];
        try (destruct (k =? 0); [discriminate|]); cbn [w_bank set_fault] in Eb;
        (destruct (bank_send (w_bank w) sender PM (f0 :: fr)) as [b'|e] eqn:Ebs; [|discriminate]);
        inversion Eb; subst; cbn [w_bank set_bank set_fault]; apply bank_send_spec in Ebs; destruct Ebs as [_ Hb]; rewrite Hb; reflexivity. }
  destruct Htr as [(Hblk & Htfa & Hval & _ & _ & Hpma & _) Hbala].
  exists offer, sc. split; [exact Hone|].
  split; [rewrite <- Hpma; symmetry; symmetry; eapply eq_sym; eapply eq_sym;
          destruct (query_simulation (w_pm wa) offer ask pid) as [sc'|e] eqn:Eq;
          [f_equal; eapply simulation_eq_perform_swap; eauto
          | apply perform_swap_spec in Hps; destruct Hps as (p0 & oi & ai & oc & ac & od & ad & Hp0 & _ & Hsc & _);
            unfold query_simulation in Eq; rewrite Hp0 in Eq; cbn [bind] in Eq; congruence]|].
  (* the swap's own messages are bank messages *)
  assert (Hleaf : forallb plain_leaf msgs1 = true).
  { subst msgs1. rewrite forallb_app. unfold swap_fee_msgs. rewrite forallb_app.
    destruct (sc_return sc =? 0), (sc_burn_fee sc =? 0), (sc_protocol_fee sc =? 0); reflexivity. }
  rewrite (process_leaves 6 _ PM msgs1 Hleaf) in E2.
  intros recv fc a d. subst recv fc.
  rewrite (exec_leaves_bal msgs1 _ _ _ _ a d Hleaf E2). cbn [w_bank set_pm w_tf_fee]. rewrite Hbala.
  assert (Hr : addr_or_default wa r sender = addr_or_default w r sender) by (unfold addr_or_default, addr_valid; rewrite Hval; reflexivity).
  subst msgs1. rewrite Hr, Hpma.
  apply perform_swap_res with (d := d) in Hps. destruct Hps as (_ & H0 & H1 & H2).
  unfold swap_fee_msgs.
  destruct (sc_return sc =? 0) eqn:E0, (sc_burn_fee sc =? 0) eqn:E1, (sc_protocol_fee sc =? 0) eqn:E3;
    cbn [app leaves_eff leaf_eff plain sm_msg camt denom_of amount_of fst snd];
    unfold ind; destruct (String.eqb a sender), (String.eqb a PM), (String.eqb a (addr_or_default w r sender)), (String.eqb a (pm_fee_collector (pm_cfg (w_pm w)))), (String.eqb ask d); lia.
Qed.

Lemma bank_send_supply b from to cs b' dn : bank_send b from to cs = Ok b' -> supply b' dn = supply b dn.
Proof. unfold bank_send. intros H. inv_all. reflexivity. Qed.

(* the same for ANY transaction whose handler answers with bank / token-factory messages only (swaps, routes,
   withdrawals, pool creation, farm-manager operations ...): attached funds move from the sender to the contract, then
   the handler's messages take effect one by one; nobody else's balance changes *)
Theorem leaf_tx_balances w sender target m funds w' :
  run_tx w sender target m funds = Ok w' ->
  exists wa w2 msgs,
    same_contracts w wa /\ (forall dn, supply (w_bank wa) dn = supply (w_bank w) dn) /\
    handle wa target sender funds m = Ok (w2, msgs) /\
    (forallb plain_leaf msgs = true ->
     forall a d, bal (w_bank w') a d = bal (w_bank w) a d
                   - ind (String.eqb a sender) (camt funds d) + ind (String.eqb a target) (camt funds d)
                   + leaves_eff target (w_tf_fee w) msgs a d).
Proof.
  intros H. unfold run_tx in H.
  destruct (process FUEL w sender [plain (MWasm target m funds)]) as [[wx|ex] flx] eqn:Ep; cbn [fst] in H; [|discriminate].
  inversion H; subst wx; clear H. unfold FUEL in Ep.
  destruct (plain_call _ _ _ _ _ _ _ _ Ep) as (wa & fla & w2 & subs2 & fl2 & Eb & Eh & E2).
  assert (Htr : same_contracts w wa /\ (forall dn, supply (w_bank wa) dn = supply (w_bank w) dn) /\
                forall a d, bal (w_bank wa) a d = bal (w_bank w) a d - ind (String.eqb a sender) (camt funds d) + ind (String.eqb a target) (camt funds d)).
  { destruct funds as [|f0 fr].
    - inversion Eb; subst. split; [apply same_contracts_refl|]. split; [reflexivity|]. intros a d. cbn [camt]. unfold ind. destruct (String.eqb a sender), (String.eqb a target); lia.
    - split; [eapply bank_call_same; exact Eb|].
      unfold bank_call, fault_tick in Eb. destruct (w_fault w) as [k|];
        try (destruct (k =? 0); [discriminate|]); cbn [w_bank set_fault] in Eb;
        (destruct (bank_send (w_bank w) sender target (f0 :: fr)) as [b'|e] eqn:Ebs; [|discriminate]);
        inversion Eb; subst; cbn [w_bank set_bank set_fault];
        (split; [intros dn; eapply bank_send_supply; exact Ebs|]); intros a d;
        apply bank_send_spec in Ebs; destruct Ebs as [_ Hb]; rewrite Hb; reflexivity. }
  destruct Htr as [Hsa [Hsup Hbala]].
  exists wa, w2, subs2. split; [exact Hsa|]. split; [exact Hsup|]. split; [exact Eh|].
  intros Hleaf a d. rewrite (process_leaves 6 _ target subs2 Hleaf) in E2.
  rewrite (exec_leaves_bal subs2 _ _ _ _ a d Hleaf E2).
  (* handlers do not touch the bank or the token-factory fee *)
  assert (Hh : w_bank w2 = w_bank wa /\ w_tf_fee w2 = w_tf_fee wa).
  { apply handle_ok_typed in Eh. destruct Eh as (Eh & _ & _). unfold handle_typed in Eh.
    destruct (String.eqb target EM); [destruct m; inv_all; split; reflexivity|].
    destruct (String.eqb target FC); [destruct m; inv_all; split; reflexivity|].
    destruct (String.eqb target PM); [destruct m; inv_all; split; reflexivity|].
    destruct (String.eqb target FM); [destruct m; inv_all; split; reflexivity | discriminate]. }
  destruct Hh as [Hb2 Ht2]. rewrite Hb2, Ht2, Hbala. destruct Hsa as (_ & Htfa & _). rewrite Htfa. reflexivity.
Qed.

(* C02 at transaction level: a withdrawal pays the sender exactly the floored pro-rata refunds out of the pool manager,
   destroys exactly the LP sent, and changes no other balance *)
Theorem withdraw_tx_balances w sender funds pid w' :
  run_tx w sender PM (WPm (PmWithdraw pid)) funds = Ok w' ->
  exists p amount total,
    pool_find (w_pm w) pid = Ok p /\ must_pay funds (p_lp p) = Ok amount /\ supply (w_bank w) (p_lp p) = total /\
    let refunds := filter (fun c => 0 <? amount_of c) (map (fun a => (denom_of a, withdraw_refund (amount_of a) amount total)) (p_assets p)) in
    forall a d,
      bal (w_bank w') a d = bal (w_bank w) a d
        - ind (String.eqb a sender) (camt funds d) + ind (String.eqb a PM) (camt funds d)
        - ind (String.eqb a PM) (camt refunds d) + ind (String.eqb a sender) (camt refunds d)
        - ind (String.eqb a PM) (ind (String.eqb (p_lp p) d) amount).
Proof.
  intros H. destruct (leaf_tx_balances _ _ _ _ _ _ H) as (wa & w2 & msgs & Hsa & Hsup & Eh & Hbal).
  apply handle_ok_typed in Eh. destruct Eh as (Eh & _ & _).
  unfold handle_typed in Eh. cbn [String.eqb EM FC PM FM Ascii.eqb Bool.eqb] in Eh.
  apply bind_ok in Eh. destruct Eh as [[s1 msgs1] [Hx Eh]]. inversion Eh; subst w2 msgs; clear Eh. cbn [pm_execute] in Hx.
  apply withdraw_spec in Hx. destruct Hx as (p & amount & total & refunds_all & Hp & _ & Hpay & Hts & _ & _ & Hrf & Hmsgs & _).
  destruct Hsa as (_ & _ & _ & _ & _ & Hpma & _).
  exists p, amount, total. rewrite <- Hpma. split; [exact Hp|]. split; [exact Hpay|].
  split.
  { (* the LP supply is read by the handler after the funds transfer, which does not change any supply *)
    unfold total_share in Hts. destruct (is_factory_token (p_lp p)); [|discriminate]. inversion Hts. symmetry. apply Hsup. }
  intros refunds a d. subst msgs1 refunds refunds_all.
  rewrite Hbal by reflexivity. cbn [leaves_eff leaf_eff plain sm_msg camt denom_of amount_of fst snd].
  unfold ind. destruct (String.eqb a sender), (String.eqb a PM), (String.eqb (p_lp p) d); lia.
Qed.

(* C08 at transaction level: a regular withdrawal of a position moves exactly the recorded LP amount from the farm
   manager to the owner and changes no other balance *)
Theorem position_withdraw_tx_balances w sender funds id em w' :
  em <> Some true ->
  run_tx w sender FM (WFm (FmPosWithdraw id em)) funds = Ok w' ->
  exists p, sfind pos_id id (fm_positions (w_fm w)) = Some p /\ pos_recv p = sender /\ funds = [] /\
    forall a d,
      bal (w_bank w') a d = bal (w_bank w) a d
        - ind (String.eqb a FM) (ind (String.eqb (denom_of (pos_lp p)) d) (amount_of (pos_lp p)))
        + ind (String.eqb a sender) (ind (String.eqb (denom_of (pos_lp p)) d) (amount_of (pos_lp p))).
Proof.
  intros Hem H. destruct (leaf_tx_balances _ _ _ _ _ _ H) as (wa & w2 & msgs & Hsa & Hsup & Eh & Hbal).
  apply handle_ok_typed in Eh. destruct Eh as (Eh & _ & _).
  unfold handle_typed in Eh. cbn [String.eqb EM FC PM FM Ascii.eqb Bool.eqb] in Eh.
  apply bind_ok in Eh. destruct Eh as [[s1 msgs1] [Hx Eh]]. inversion Eh; subst w2 msgs; clear Eh.
  cbn [fm_execute] in Hx.
  apply withdraw_position_spec in Hx. destruct Hx as (Hf & p & Hp & Hrecv & _ & _ & _ & _ & _ & Hcases).
  destruct Hsa as (_ & _ & _ & _ & _ & _ & Hfma).
  exists p. rewrite <- Hfma. split; [exact Hp|]. split; [exact Hrecv|]. split; [exact Hf|].
  cbv zeta in Hcases. destruct Hcases as [(_ & _ & Hm)|(He & _)]; [|contradiction].
  intros a d. subst funds msgs1. rewrite Hrecv in *.
  destruct (amount_of (pos_lp p) =? 0) eqn:E0.
  - rewrite Hbal by reflexivity. cbn [leaves_eff camt]. unfold ind.
    destruct (String.eqb a sender), (String.eqb a FM), (String.eqb (denom_of (pos_lp p)) d); lia.
  - rewrite Hbal by reflexivity. unfold send_to. cbn [leaves_eff leaf_eff plain sm_msg camt denom_of amount_of fst snd]. unfold ind.
    destruct (String.eqb a sender), (String.eqb a FM), (String.eqb (denom_of (pos_lp p)) d); lia.
Qed.

(* C16 at transaction level: creating a pool moves the attached funds to the pool manager, out of which exactly the
   configured creation fee goes to the fee collector and exactly the token-factory fee is destroyed; nothing else moves *)
Theorem create_pool_tx_balances w sender funds denoms decimals fees pt oid w' :
  run_tx w sender PM (WPm (PmCreatePool denoms decimals fees pt oid)) funds = Ok w' ->
  let fee := pm_creation_fee (pm_cfg (w_pm w)) in
  let fc := pm_fee_collector (pm_cfg (w_pm w)) in
  forall a d,
    bal (w_bank w') a d = bal (w_bank w) a d
      - ind (String.eqb a sender) (camt funds d) + ind (String.eqb a PM) (camt funds d)
      - ind (String.eqb a PM) (camt [fee] d) + ind (String.eqb a fc) (camt [fee] d)
      - ind (String.eqb a PM) (camt (w_tf_fee w) d).
Proof.
  intros H fee fc a d. subst fee fc.
  destruct (leaf_tx_balances _ _ _ _ _ _ H) as (wa & w2 & msgs & Hsa & Hsup & Eh & Hbal).
  apply handle_ok_typed in Eh. destruct Eh as (Eh & _ & _).
  unfold handle_typed in Eh. cbn [String.eqb EM FC PM FM Ascii.eqb Bool.eqb] in Eh.
  apply bind_ok in Eh. destruct Eh as [[s1 msgs1] [Hx Eh]]. inversion Eh; subst w2 msgs; clear Eh. cbn [pm_execute] in Hx.
  apply create_pool_checks in Hx. cbv zeta in Hx. destruct Hx as (_ & _ & _ & _ & _ & _ & _ & _ & Hm).
  destruct Hsa as (_ & _ & _ & _ & _ & Hpma & _). rewrite Hpma in Hm. subst msgs1.
  destruct (amount_of (pm_creation_fee (pm_cfg (w_pm w))) =? 0) eqn:E0.
  - rewrite Hbal by reflexivity. cbn [app leaves_eff leaf_eff plain sm_msg camt]. unfold ind.
    destruct (String.eqb a sender), (String.eqb a PM), (String.eqb a (pm_fee_collector (pm_cfg (w_pm w)))),
      (String.eqb (denom_of (pm_creation_fee (pm_cfg (w_pm w)))) d); lia.
  - rewrite Hbal by reflexivity. cbn [app leaves_eff leaf_eff plain sm_msg camt]. unfold ind.
    destruct (String.eqb a sender), (String.eqb a PM), (String.eqb a (pm_fee_collector (pm_cfg (w_pm w)))),
      (String.eqb (denom_of (pm_creation_fee (pm_cfg (w_pm w)))) d); lia.
Qed.

(* ---------- routes ---------- *)
Lemma swap_fee_msgs_leaves cfg ask sc : forallb plain_leaf (swap_fee_msgs cfg ask sc) = true.
Proof. unfold swap_fee_msgs. rewrite forallb_app. destruct (sc_burn_fee sc =? 0), (sc_protocol_fee sc =? 0); reflexivity. Qed.

Lemma route_loop_leaves ops : forall s prev ms fm s' out fms,
  forallb plain_leaf fm = true -> route_loop s prev ops ms fm = Ok (s', out, fms) -> forallb plain_leaf fms = true.
Proof.
  induction ops as [|o r IH]; intros s prev ms fm s' out fms Hf H.
  - cbn in H. inversion H; subst. exact Hf.
  - apply route_loop_cons in H. destruct H as (s1 & sc & _ & H).
    eapply IH; [|exact H]. rewrite forallb_app, Hf. apply swap_fee_msgs_leaves.
Qed.

(* C12 / C04 for routes, the whole transaction: the sender pays the offer; the receiver is sent exactly the amount
   SimulateSwapOperations quotes (each pool visited at most once) in the route's final denom; besides that only the
   hops' protocol-fee transfers and burns [fee_msgs] take effect; nobody else's balance changes *)
Theorem route_tx_balances w sender funds ops mr r ms w' :
  NoDup (map so_pool ops) ->
  run_tx w sender PM (WPm (PmRoute ops mr r ms)) funds = Ok w' ->
  exists fst_op lst amount out fee_msgs,
    hd_error ops = Some fst_op /\ last (map Some ops) None = Some lst /\ must_pay funds (so_in fst_op) = Ok amount /\
    simulate_swap_operations (w_pm w) amount ops = Ok out /\ (forall m, mr = Some m -> m <= out) /\
    forallb plain_leaf fee_msgs = true /\
    forall a d,
      bal (w_bank w') a d = bal (w_bank w) a d
        - ind (String.eqb a sender) (camt funds d) + ind (String.eqb a PM) (camt funds d)
        - ind (String.eqb a PM) (ind (String.eqb (so_out lst) d) out)
        + ind (String.eqb a (addr_or_default w r sender)) (ind (String.eqb (so_out lst) d) out)
        + leaves_eff PM (w_tf_fee w) fee_msgs a d.
Proof.
  intros Hnd H. destruct (leaf_tx_balances _ _ _ _ _ _ H) as (wa & w2 & msgs & Hsa & Hsup & Eh & Hbal).
  apply handle_ok_typed in Eh. destruct Eh as (Eh & _ & _).
  unfold handle_typed in Eh. cbn [String.eqb EM FC PM FM Ascii.eqb Bool.eqb] in Eh.
  apply bind_ok in Eh. destruct Eh as [[s1 msgs1] [Hx Eh]]. inversion Eh; subst w2 msgs; clear Eh. cbn [pm_execute] in Hx.
  pose proof (exec_ops_spec _ _ _ _ _ _ _ _ _ Hx) as (lst & fo & amount & outc & fee_msgs & Hl & Hh & Hpay & Hao & Hloop & Hmr & Hm).
  pose proof (simulate_swap_operations_eq_execute _ _ _ _ _ _ _ _ _ Hnd Hx) as (fo' & amount' & outc' & fee' & lst' & Hh' & Hpay' & Hl' & Hsim & Hm').
  assert (fo' = fo) by congruence. subst fo'. assert (amount' = amount) by congruence. subst amount'.
  assert (Ha : amount_of outc' = amount_of outc).
  { pose proof (simulate_eq_route ops (w_pm wa) (so_in fo, amount) ms [] s1 outc fee_msgs Hnd Hao Hloop) as Hs2. cbn [amount_of snd] in Hs2.
    unfold simulate_swap_operations in Hsim.
    destruct (ensure (negb (Nat.eqb (List.length ops) 0)) "NoSwapOperationsProvided") as [[]|e]; cbn [bind] in Hsim; [|discriminate].
    congruence. }
  destruct Hsa as (_ & Htfa & Hval & _ & _ & Hpma & _).
  exists fo, lst, amount, (amount_of outc), fee_msgs.
  split; [exact Hh|]. split; [exact Hl|]. split; [exact Hpay|].
  split; [rewrite <- Hpma, <- Ha; exact Hsim|]. split; [exact Hmr|].
  assert (Hfl : forallb plain_leaf fee_msgs = true) by (eapply route_loop_leaves; [|exact Hloop]; reflexivity).
  split; [exact Hfl|].
  intros a d.
  assert (Hr : addr_or_default wa r sender = addr_or_default w r sender) by (unfold addr_or_default, addr_valid; rewrite Hval; reflexivity).
  rewrite Hr in Hm. subst msgs1.
  assert (Hall : forallb plain_leaf ((if amount_of outc =? 0 then [] else [plain (MBankSend (addr_or_default w r sender) [(so_out lst, amount_of outc)])]) ++ fee_msgs) = true)
    by (rewrite forallb_app, Hfl; destruct (amount_of outc =? 0); reflexivity).
  rewrite (Hbal Hall a d).
  assert (Happ : forall l1 l2, leaves_eff PM (w_tf_fee w) (l1 ++ l2) a d = leaves_eff PM (w_tf_fee w) l1 a d + leaves_eff PM (w_tf_fee w) l2 a d)
    by (induction l1 as [|x l1 IH]; intros l2; cbn [app leaves_eff]; [lia | rewrite IH; lia]).
  rewrite Happ.
  destruct (amount_of outc =? 0) eqn:E0; cbn [leaves_eff leaf_eff plain sm_msg camt denom_of amount_of fst snd]; unfold ind;
    destruct (String.eqb a sender), (String.eqb a PM), (String.eqb a (addr_or_default w r sender)), (String.eqb (so_out lst) d); lia.
Qed.

(* C09 at transaction level: an emergency withdrawal. Either the position has already unlocked and the whole recorded
   amount goes back to its owner, or exactly these transfers out of the farm manager take effect, all in the position's
   LP denom: [per] to each owner of a currently active farm, [collector] to the fee collector, the rest to the position's
   owner — together at most the recorded amount, the penalty part at most 90% of it. Nothing else moves. *)
Theorem emergency_withdraw_tx_balances w sender funds id w' :
  run_tx w sender FM (WFm (FmPosWithdraw id (Some true))) funds = Ok w' ->
  exists p, sfind pos_id id (fm_positions (w_fm w)) = Some p /\ pos_recv p = sender /\ funds = [] /\
    let lp := denom_of (pos_lp p) in let amount := amount_of (pos_lp p) in
    ((exists e, pos_exp p = Some e /\ e <= seconds (w_block w)) /\
     forall a d, bal (w_bank w') a d = bal (w_bank w) a d
                 + leaves_eff FM (w_tf_fee w) (if amount =? 0 then [] else [send_to sender lp amount]) a d)
    \/
    (position_is_expired p (seconds (w_block w)) = false /\
     exists tp owners per collector,
      0 <= tp < amount /\ tp * 10 <= amount * 9 /\ 0 <= per /\ 0 <= collector /\
      Z.of_nat (List.length owners) * per + collector <= tp /\ (owners = [] -> collector = tp) /\
      forall a d,
        bal (w_bank w') a d = bal (w_bank w) a d
          + leaves_eff FM (w_tf_fee w)
              (map (fun o => send_to o lp per) owners ++
               (if 0 <? collector then [send_to (fm_fee_collector (fm_cfg (w_fm w))) lp collector] else []) ++
               (if ssub amount tp =? 0 then [] else [send_to sender lp (ssub amount tp)])) a d).
Proof.
  intros H. destruct (leaf_tx_balances _ _ _ _ _ _ H) as (wa & w2 & msgs & Hsa & Hsup & Eh & Hbal).
  apply handle_ok_typed in Eh. destruct Eh as (Eh & _ & _).
  unfold handle_typed in Eh. cbn [String.eqb EM FC PM FM Ascii.eqb Bool.eqb] in Eh.
  apply bind_ok in Eh. destruct Eh as [[s1 msgs1] [Hx Eh]]. inversion Eh; subst w2 msgs; clear Eh.
  cbn [fm_execute] in Hx.
  apply withdraw_position_spec in Hx. destruct Hx as (Hf & p & Hp & Hrecv & _ & _ & _ & _ & _ & Hcases).
  destruct Hsa as (Hblk & _ & _ & _ & _ & _ & Hfma).
  exists p. rewrite <- Hfma. split; [exact Hp|]. split; [exact Hrecv|]. split; [exact Hf|].
  cbv zeta in *. subst funds. rewrite Hblk in Hcases. rewrite Hrecv in Hcases.
  assert (Hleaf : forall l, Forall (fun m => exists to cs, m = plain (MBankSend to cs)) l -> forallb plain_leaf l = true).
  { induction l as [|x r IH]; intros F; [reflexivity|]. inversion F as [|y ys (to & cs & ->) Fr]; subst. cbn. apply IH. exact Fr. }
  assert (Hc0 : forall a d, camt [] d = 0 /\ ind (String.eqb a sender) 0 = 0) by (intros; split; [reflexivity | unfold ind; destruct (String.eqb a sender); reflexivity]).
  destruct Hcases as [(_ & He & Hm)|(_ & Hne & tp & owners & per & collector & Htp & H90 & Hper & Hcol & Hsum & Hnone & Hm)].
  - left. split; [exact He|]. intros a d. subst msgs1. rewrite Hbal.
    + cbn [camt]. unfold ind. destruct (String.eqb a sender), (String.eqb a FM); lia.
    + destruct (amount_of (pos_lp p) =? 0); reflexivity.
  - right. split; [exact Hne|]. exists tp, owners, per, collector.
    split; [exact Htp|]. split; [exact H90|]. split; [exact Hper|]. split; [exact Hcol|]. split; [exact Hsum|]. split; [exact Hnone|].
    rewrite Hfma in Hm. rewrite Hfma. intros a d. subst msgs1. rewrite Hbal.
    + cbn [camt]. unfold ind. destruct (String.eqb a sender), (String.eqb a FM); lia.
    + rewrite !forallb_app. rewrite Hleaf; [|apply Forall_forall; intros m Hm; apply in_map_iff in Hm; destruct Hm as (o & <- & _); unfold send_to; eauto].
      destruct (0 <? collector), (ssub (amount_of (pos_lp p)) tp =? 0); reflexivity.
Qed.

(* ---------- supplies ---------- *)
Lemma fold_left_ext' {A B} (f g : A -> B -> A) l : (forall a b, f a b = g a b) -> forall a, fold_left f l a = fold_left g l a.
Proof. intros H. induction l as [|x r IH]; intros a; cbn; [reflexivity|]. rewrite H. apply IH. Qed.
Lemma sup_get_set s d0 v d : sup_get (sup_set s d0 v) d = if String.eqb d d0 then v else sup_get s d.
Proof.
  induction s as [|[d' v'] r IH]; cbn [sup_set sup_get]; [reflexivity|].
  destruct (String.eqb d0 d') eqn:E0; cbn [sup_get].
  - apply String.eqb_eq in E0. subst d'. destruct (String.eqb d d0); reflexivity.
  - destruct (String.eqb d d') eqn:E1.
    + apply String.eqb_eq in E1. subst d'. rewrite String.eqb_sym in E0. rewrite E0. reflexivity.
    + exact IH.
Qed.

Lemma sup_fold_add (sgn : Z) n : forall s d,
  sup_get (fold_left (fun s c => sup_set s (denom_of c) (sup_get s (denom_of c) + sgn * amount_of c)) n s) d = sup_get s d + sgn * camt n d.
Proof.
  induction n as [|c r IH]; intros s d; cbn [fold_left camt]; [lia|].
  rewrite IH, sup_get_set. rewrite (String.eqb_sym d (denom_of c)). destruct (String.eqb (denom_of c) d) eqn:E.
  - apply String.eqb_eq in E. rewrite E. lia.
  - lia.
Qed.

Lemma bank_burn_supply b from cs b' d : bank_burn b from cs = Ok b' -> supply b' d = supply b d - camt cs d.
Proof.
  unfold bank_burn. intros H. apply bind_ok in H. destruct H as [n [Hn H]]. apply bank_normalize_spec in Hn. destruct Hn as (_ & Hc & _).
  apply bind_ok in H. destruct H as [l1 [_ H]]. inversion H; subst b'; clear H. unfold supply. cbn [b_supply].
  rewrite (fold_left_ext' _ (fun s c => sup_set s (denom_of c) (sup_get s (denom_of c) + (-1) * amount_of c)))
    by (intros a0 b0; f_equal; lia).
  rewrite sup_fold_add, Hc. lia.
Qed.
Lemma bank_mint_supply b to cs b' d : bank_mint b to cs = Ok b' -> supply b' d = supply b d + camt cs d.
Proof.
  unfold bank_mint. intros H. apply bind_ok in H. destruct H as [n [Hn H]]. apply bank_normalize_spec in Hn. destruct Hn as (_ & Hc & _).
  apply bind_ok in H. destruct H as [l1 [_ H]]. inversion H; subst b'; clear H. unfold supply. cbn [b_supply].
  rewrite (fold_left_ext' _ (fun s c => sup_set s (denom_of c) (sup_get s (denom_of c) + 1 * amount_of c)))
    by (intros a0 b0; f_equal; lia).
  rewrite sup_fold_add, Hc. lia.
Qed.

Definition leaf_sup_eff (tf : list coin) (m : cmsg) (d : string) : Z :=
  match m with
  | MBankBurn cs => - camt cs d
  | MTfCreateDenom _ => - camt tf d
  | MTfMint coin _ => camt [coin] d
  | MTfBurn coin => - camt [coin] d
  | _ => 0
  end.
Fixpoint leaves_sup_eff (tf : list coin) (subs : list submsg) (d : string) : Z :=
  match subs with [] => 0 | s :: r => leaf_sup_eff tf (sm_msg s) d + leaves_sup_eff tf r d end.

Lemma exec_leaf_sup w c m w1 fl d :
  is_leaf m = true -> exec_leaf w c m = (Ok w1, fl) ->
  supply (w_bank w1) d = supply (w_bank w) d + leaf_sup_eff (w_tf_fee w) m d.
Proof.
  intros Hl H. unfold leaf_sup_eff.
  destruct m as [to amt|amt|sd|cn to|cn|t wm fs]; cbn [exec_leaf] in H; try discriminate;
    unfold bank_call, fault_tick in H; destruct (w_fault w) as [k|];
    try (destruct (k =? 0); [discriminate|]); cbn [w_bank set_fault w_tf_fee] in H.
  all: match type of H with
       | context [bank_send ?b ?f ?t ?cs] => destruct (bank_send b f t cs) as [b'|e] eqn:Eb; [|discriminate];
           inversion H; subst; cbn [w_bank set_bank set_fault]; rewrite (bank_send_supply _ _ _ _ _ d Eb); lia
       | context [bank_burn ?b ?f ?cs] => destruct (bank_burn b f cs) as [b'|e] eqn:Eb; [|discriminate];
           inversion H; subst; cbn [w_bank set_bank set_fault]; rewrite (bank_burn_supply _ _ _ _ d Eb); lia
       | context [bank_mint ?b ?t ?cs] => destruct (bank_mint b t cs) as [b'|e] eqn:Eb; [|discriminate];
           inversion H; subst; cbn [w_bank set_bank set_fault]; rewrite (bank_mint_supply _ _ _ _ d Eb); lia
       end.
Qed.

Lemma exec_leaves_sup subs : forall w c w1 fl d,
  forallb plain_leaf subs = true -> exec_leaves w c subs = (Ok w1, fl) ->
  supply (w_bank w1) d = supply (w_bank w) d + leaves_sup_eff (w_tf_fee w) subs d.
Proof.
  induction subs as [|s rest IH]; intros w c w1 fl d H E; cbn [exec_leaves] in E.
  - inversion E; subst. cbn [leaves_sup_eff]. lia.
  - cbn [forallb] in H. apply andb_true_iff in H. destruct H as [Hs Hr].
    unfold plain_leaf in Hs. apply andb_true_iff in Hs. destruct Hs as [Hl _].
    destruct (exec_leaf w c (sm_msg s)) as [[w2|e] fl2] eqn:E2; [|discriminate].
    rewrite (IH _ _ _ _ d Hr E), (exec_leaf_sup _ _ _ _ _ d Hl E2). cbn [leaves_sup_eff].
    pose proof (exec_leaf_same _ _ _ _ _ Hl E2) as (_ & Htf & _). rewrite Htf. lia.
Qed.

(* supplies through a transaction whose handler answers with bank / token-factory messages only *)
Theorem leaf_tx_supplies w sender target m funds w' :
  run_tx w sender target m funds = Ok w' ->
  exists wa w2 msgs,
    same_contracts w wa /\ handle wa target sender funds m = Ok (w2, msgs) /\
    (forallb plain_leaf msgs = true ->
     forall d, supply (w_bank w') d = supply (w_bank w) d + leaves_sup_eff (w_tf_fee w) msgs d).
Proof.
  intros H. unfold run_tx in H.
  destruct (process FUEL w sender [plain (MWasm target m funds)]) as [[wx|ex] flx] eqn:Ep; cbn [fst] in H; [|discriminate].
  inversion H; subst wx; clear H. unfold FUEL in Ep.
  destruct (plain_call _ _ _ _ _ _ _ _ Ep) as (wa & fla & w2 & subs2 & fl2 & Eb & Eh & E2).
  assert (Htr : same_contracts w wa /\ forall dn, supply (w_bank wa) dn = supply (w_bank w) dn).
  { destruct funds as [|f0 fr].
    - inversion Eb; subst. split; [apply same_contracts_refl | reflexivity].
    - split; [eapply bank_call_same; exact Eb|].
      unfold bank_call, fault_tick in Eb. destruct (w_fault w) as [k|];
        try (destruct (k =? 0); [discriminate|]); cbn [w_bank set_fault] in Eb;
        (destruct (bank_send (w_bank w) sender target (f0 :: fr)) as [b'|e] eqn:Ebs; [|discriminate]);
        inversion Eb; subst; cbn [w_bank set_bank set_fault]; intros dn; eapply bank_send_supply; exact Ebs. }
  destruct Htr as [Hsa Hsup].
  exists wa, w2, subs2. split; [exact Hsa|]. split; [exact Eh|].
  intros Hleaf d. rewrite (process_leaves 6 _ target subs2 Hleaf) in E2.
  rewrite (exec_leaves_sup subs2 _ _ _ _ d Hleaf E2).
  assert (Hh : w_bank w2 = w_bank wa /\ w_tf_fee w2 = w_tf_fee wa).
  { apply handle_ok_typed in Eh. destruct Eh as (Eh & _ & _). unfold handle_typed in Eh.
    destruct (String.eqb target EM); [destruct m; inv_all; split; reflexivity|].
    destruct (String.eqb target FC); [destruct m; inv_all; split; reflexivity|].
    destruct (String.eqb target PM); [destruct m; inv_all; split; reflexivity|].
    destruct (String.eqb target FM); [destruct m; inv_all; split; reflexivity | discriminate]. }
  destruct Hh as [Hb2 Ht2]. rewrite Hb2, Ht2, Hsup. destruct Hsa as (_ & Htfa & _). rewrite Htfa. reflexivity.
Qed.

(* C04: ... and the burn fee is destroyed from the supply of the ask denom; no other supply changes *)
Theorem swap_tx_supplies w sender funds ask bp ms r pid w' :
  run_tx w sender PM (WPm (PmSwap ask bp ms r pid)) funds = Ok w' ->
  exists offer sc,
    one_coin funds = Ok offer /\ query_simulation (w_pm w) offer ask pid = Ok sc /\
    forall d, supply (w_bank w') d = supply (w_bank w) d - ind (String.eqb ask d) (sc_burn_fee sc).
Proof.
  intros H. destruct (swap_tx_balances _ _ _ _ _ _ _ _ _ H) as (offer & sc & Hone & Hsim & _).
  exists offer, sc. split; [exact Hone|]. split; [exact Hsim|].
  destruct (leaf_tx_supplies _ _ _ _ _ _ H) as (wa & w2 & msgs & Hsa & Eh & Hsup).
  apply handle_ok_typed in Eh. destruct Eh as (Eh & _ & _).
  unfold handle_typed in Eh. cbn [String.eqb EM FC PM FM Ascii.eqb Bool.eqb] in Eh.
  apply bind_ok in Eh. destruct Eh as [[s1 msgs1] [Hx Eh]]. inversion Eh; subst w2 msgs; clear Eh. cbn [pm_execute] in Hx.
  apply swap_spec in Hx. destruct Hx as (p & offer' & sc' & _ & _ & Hone' & _ & Hps & Hmsgs).
  destruct Hsa as (_ & _ & _ & _ & _ & Hpma & _).
  assert (sc' = sc).
  { assert (offer' = offer) by congruence. subst offer'.
    symmetry. eapply simulation_eq_perform_swap; [exact Hps | rewrite Hpma; exact Hsim]. }
  subst sc'. intros d. subst msgs1.
  rewrite Hsup.
  - unfold swap_fee_msgs.
    destruct (sc_return sc =? 0), (sc_burn_fee sc =? 0) eqn:E1, (sc_protocol_fee sc =? 0);
      cbn [app leaves_sup_eff leaf_sup_eff plain sm_msg camt denom_of amount_of fst snd]; unfold ind; destruct (String.eqb ask d); lia.
  - rewrite forallb_app. unfold swap_fee_msgs. rewrite forallb_app.
    destruct (sc_return sc =? 0), (sc_burn_fee sc =? 0), (sc_protocol_fee sc =? 0); reflexivity.
Qed.
