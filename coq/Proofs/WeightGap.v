(* WeightGap.v — C10: every weight change moves the contract total and the user's own weight by the same amount; the
   difference total - user (what belongs to everybody else) is preserved EXCEPT when a subtraction saturates. *)
From MD.Model Require Import Base Ownable Epoch PoolMath Types PoolManager FarmManager.
From MD.Proofs Require Import Tactics PoolMathProofs MapLemmas WeightProofs FarmProofs ClaimFrame.

Definition lstep (a lp : string) (acc : option (Z * Z)) (kv : wkey * Z) : option (Z * Z) :=
  if wkey_pref a lp (fst kv) then
    match acc with
    | Some (e, _) => if e <? wk_epoch (fst kv) then Some (wk_epoch (fst kv), snd kv) else acc
    | None => Some (wk_epoch (fst kv), snd kv)
    end
  else acc.
Lemma w_latest_fold l a lp : w_latest l a lp = fold_left (lstep a lp) l None.
Proof. reflexivity. Qed.

Lemma latest_set_other k0 v a lp : wkey_pref a lp k0 = false -> forall l acc,
  fold_left (lstep a lp) (w_set l k0 v) acc = fold_left (lstep a lp) l acc.
Proof.
  intros Hp. induction l as [|[k' v'] r IH]; intros acc; cbn [w_set fold_left].
  - unfold lstep. cbn [fst]. rewrite Hp. reflexivity.
  - destruct (wkey_eqb k0 k') eqn:E; cbn [fold_left].
    + replace (lstep a lp acc (k', v)) with acc by (unfold lstep; cbn [fst]; rewrite (wkey_eqb_pref _ _ a lp E), Hp; reflexivity).
      replace (lstep a lp acc (k', v')) with acc by (unfold lstep; cbn [fst]; rewrite (wkey_eqb_pref _ _ a lp E), Hp; reflexivity). reflexivity.
    + apply IH.
Qed.

Lemma latest_weight_set_other ws k0 v a lp : wkey_pref a lp k0 = false -> latest_weight (w_set ws k0 v) a lp = latest_weight ws a lp.
Proof. intros Hp. unfold latest_weight. rewrite !w_latest_fold, (latest_set_other k0 v a lp Hp). reflexivity. Qed.

(* the statement *)
Theorem update_weights_gap w s recv lp amount dur fill s' :
  recv <> FM ->
  update_weights w s recv lp amount dur fill = Ok s' ->
  exists ep wgt cw uw,
    calculate_weight amount dur = Ok wgt /\
    fm_weights s' = w_set (w_set (fm_weights s) (mkw FM lp (ep_id ep + 1)) cw) (mkw recv lp (ep_id ep + 1)) uw /\
    let total := latest_weight (fm_weights s) FM lp in
    let user := latest_weight (fm_weights s) recv lp in
    (fill = true -> cw = total + wgt /\ uw = user + wgt) /\
    (fill = false -> cw = ssub total wgt /\ uw = ssub user wgt) /\
    (* the weight of everybody else *)
    ((fill = true \/ (wgt <= user /\ wgt <= total)) -> cw - uw = total - user).
Proof.
  intros Hne H. apply update_weights_effective_next_epoch in H.
  destruct H as (ep & wgt & cw & uw & _ & Hw & Hws & Hcw & Huw).
  exists ep, wgt, cw, uw. split; [exact Hw|]. split; [exact Hws|].
  cbv zeta in *.
  assert (Hl : latest_weight (w_set (fm_weights s) (mkw FM lp (ep_id ep + 1)) cw) recv lp = latest_weight (fm_weights s) recv lp).
  { apply latest_weight_set_other. unfold wkey_pref, mkw. cbn [wk_addr wk_lp].
    assert (E : String.eqb FM recv = false) by (apply String.eqb_neq; congruence). rewrite E. reflexivity. }
  rewrite Hl in Huw.
  split; [intros ->; split; assumption|]. split; [intros ->; split; assumption|].
  intros [->|[H1 H2]].
  - subst. lia.
  - destruct fill; subst; unfold ssub; lia.
Qed.
