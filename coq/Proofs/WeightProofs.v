(* WeightProofs.v — the LP weight curve (C10) and the emergency penalty (C09): pure functions. *)
From MD.Model Require Import Base Ownable Epoch PoolMath Types FarmManager.
From MD.Proofs Require Import Tactics Arith PoolMathProofs.

(* the multiplier as 18-digit atomics: floor(d^2*A/DEN) + floor(d*B/DEN) + floor(C) *)
Definition wmult (dur : Z) : Z :=
  dur * dur * W_A * DEC / W_DEN + dur * W_B * DEC / W_DEN + W_C_NUM * DEC / W_C_DEN.

Lemma calculate_weight_spec amount dur w :
  calculate_weight amount dur = Ok w ->
  SECONDS_IN_DAY <= dur <= SECONDS_IN_YEAR /\ w = Z.max (amount * wmult dur / DEC) amount.
Proof.
  unfold calculate_weight. intros H.
  apply bind_ok in H. destruct H as [[] [Hr H]]. apply ensure_ok in Hr.
  unfold cmul, dec_mul, dec_div, dec_from_ratio, cadd in H.
  change (W_DEN =? 0) with false in H. change (W_C_DEN =? 0) with false in H. cbv iota in H.
  apply bind_ok in H. destruct H as [ud [H1 H]]. apply chk_ok in H1. destruct H1 as [-> _].
  apply bind_ok in H. destruct H as [am [H2 H]]. apply chk_ok in H2. destruct H2 as [-> _].
  apply bind_ok in H. destruct H as [ud2 [H3 H]]. apply chk_ok in H3. destruct H3 as [-> _].
  apply bind_ok in H. destruct H as [udm [H4 H]]. apply chk_ok in H4. destruct H4 as [-> _].
  apply bind_ok in H. destruct H as [p1 [H5 H]]. apply chk_ok in H5. destruct H5 as [-> _].
  apply bind_ok in H. destruct H as [nm [H6 H]]. apply chk_ok in H6. destruct H6 as [-> _].
  apply bind_ok in H. destruct H as [p2 [H7 H]]. apply chk_ok in H7. destruct H7 as [-> _].
  apply bind_ok in H. destruct H as [p3 [H8 H]]. apply chk_ok in H8. destruct H8 as [-> _].
  apply bind_ok in H. destruct H as [s1 [H9 H]]. apply chk_ok in H9. destruct H9 as [-> _].
  apply bind_ok in H. destruct H as [s [H10 H]]. apply chk_ok in H10. destruct H10 as [-> _].
  apply bind_ok in H. destruct H as [wd [H11 H]]. apply chk_ok in H11. destruct H11 as [-> _].
  apply bind_ok in H. destruct H as [wgt [H12 H]]. apply chk_ok in H12. destruct H12 as [-> _].
  inversion H; subst; clear H. split; [lia|].
  assert (E1 : dur * DEC * (dur * DEC) / DEC = dur * dur * DEC).
  { replace (dur * DEC * (dur * DEC)) with (dur * dur * DEC * DEC) by ring. apply Z.div_mul. unfold DEC; lia. }
  rewrite E1. rewrite (mul_DEC_div (dur * dur) W_A). rewrite (mul_DEC_div dur W_B).
  rewrite (mul_DEC_div amount). unfold wmult. reflexivity.
Qed.

Lemma wmult_mono d1 d2 : 0 <= d1 <= d2 -> wmult d1 <= wmult d2.
Proof.
  intros H. unfold wmult.
  assert (dur2 : d1 * d1 <= d2 * d2) by nia.
  assert (A : d1 * d1 * W_A * DEC / W_DEN <= d2 * d2 * W_A * DEC / W_DEN).
  { apply Z.div_le_mono; [unfold W_DEN; lia|]. unfold W_A, DEC. nia. }
  assert (B : d1 * W_B * DEC / W_DEN <= d2 * W_B * DEC / W_DEN).
  { apply Z.div_le_mono; [unfold W_DEN; lia|]. unfold W_B, DEC. nia. }
  lia.
Qed.

Lemma wmult_year : wmult SECONDS_IN_YEAR = 15999999999999999998.
Proof. vm_compute. reflexivity. Qed.
Lemma wmult_nonneg d : 0 <= d -> 0 <= wmult d.
Proof.
  intros H. unfold wmult.
  assert (0 <= d * d * W_A * DEC / W_DEN) by (apply Z.div_pos; [unfold W_A, DEC; nia | unfold W_DEN; lia]).
  assert (0 <= d * W_B * DEC / W_DEN) by (apply Z.div_pos; [unfold W_B, DEC; nia | unfold W_DEN; lia]).
  assert (0 <= W_C_NUM * DEC / W_C_DEN) by (vm_compute; discriminate). lia.
Qed.

(* C10: weight >= amount *)
Lemma weight_ge_amount amount dur w : calculate_weight amount dur = Ok w -> amount <= w.
Proof. intros H. apply calculate_weight_spec in H. destruct H as [_ ->]. lia. Qed.

(* C10: weight <= 16 * amount *)
Lemma weight_le_16x amount dur w : 0 <= amount -> calculate_weight amount dur = Ok w -> w <= 16 * amount.
Proof.
  intros Ha H. apply calculate_weight_spec in H. destruct H as [Hd ->].
  assert (Hm : wmult dur <= 16 * DEC).
  { eapply Z.le_trans; [apply (wmult_mono dur SECONDS_IN_YEAR); unfold SECONDS_IN_DAY in *; lia|].
    rewrite wmult_year. unfold DEC. lia. }
  assert (amount * wmult dur / DEC <= 16 * amount).
  { apply Z.div_le_upper_bound; [unfold DEC; lia|]. nia. }
  lia.
Qed.

(* C10: non-decreasing in the amount and in the unlocking duration *)
Lemma weight_mono_amount a1 a2 dur w1 w2 :
  0 <= a1 <= a2 -> calculate_weight a1 dur = Ok w1 -> calculate_weight a2 dur = Ok w2 -> w1 <= w2.
Proof.
  intros Ha H1 H2. apply calculate_weight_spec in H1, H2. destruct H1 as [Hd ->]. destruct H2 as [_ ->].
  assert (0 <= wmult dur) by (apply wmult_nonneg; unfold SECONDS_IN_DAY in *; lia).
  assert (a1 * wmult dur / DEC <= a2 * wmult dur / DEC) by (apply Z.div_le_mono; [unfold DEC; lia | nia]).
  lia.
Qed.

Lemma weight_mono_duration a d1 d2 w1 w2 :
  0 <= a -> d1 <= d2 -> calculate_weight a d1 = Ok w1 -> calculate_weight a d2 = Ok w2 -> w1 <= w2.
Proof.
  intros Ha Hd H1 H2. apply calculate_weight_spec in H1, H2. destruct H1 as [Hd1 ->]. destruct H2 as [Hd2 ->].
  assert (wmult d1 <= wmult d2) by (apply wmult_mono; unfold SECONDS_IN_DAY in *; lia).
  assert (a * wmult d1 / DEC <= a * wmult d2 / DEC) by (apply Z.div_le_mono; [unfold DEC; lia | nia]).
  lia.
Qed.

(* ---------- emergency penalty ---------- *)
Definition remaining_lock (p : position) (now : Z) : Z :=
  match pos_exp p with Some e => ssub e now | None => pos_dur p end.

Lemma penalty_spec p base now pen :
  calculate_emergency_penalty p base now = Ok pen ->
  exists wgt,
    0 < pos_dur p /\ calculate_weight (amount_of (pos_lp p)) (pos_dur p) = Ok wgt /\ amount_of (pos_lp p) <> 0 /\
    pen = Z.min (base * (remaining_lock p now * DEC / pos_dur p) / DEC * (wgt * DEC / amount_of (pos_lp p)) / DEC) MAX_PENALTY_CAP.
Proof.
  unfold calculate_emergency_penalty. fold (remaining_lock p now). intros H.
  apply bind_ok in H. destruct H as [[] [Hd H]]. apply ensure_ok in Hd.
  unfold dec_from_ratio, dec_mul in H.
  apply bind_ok in H. destruct H as [rem [H1 H]].
  destruct (pos_dur p =? 0) eqn:E0; [discriminate|]. apply chk_ok in H1. destruct H1 as [-> _].
  apply bind_ok in H. destruct H as [wgt [Hw H]].
  apply bind_ok in H. destruct H as [mult [H2 H]].
  destruct (amount_of (pos_lp p) =? 0) eqn:E1; [discriminate|]. apply chk_ok in H2. destruct H2 as [-> _].
  apply bind_ok in H. destruct H as [p1 [H3 H]]. apply chk_ok in H3. destruct H3 as [-> _].
  apply bind_ok in H. destruct H as [p2 [H4 H]]. apply chk_ok in H4. destruct H4 as [-> _].
  inversion H; subst. exists wgt. repeat split; auto; lia.
Qed.

(* C09: never more than the 90% cap *)
Lemma penalty_le_cap p base now pen : calculate_emergency_penalty p base now = Ok pen -> pen <= PCT 90.
Proof. intros H. apply penalty_spec in H. destruct H as (wgt & _ & _ & _ & ->). unfold MAX_PENALTY_CAP. lia. Qed.

(* C09: never increases as time passes (closed position: remaining = expiry - now, saturating) *)
Lemma penalty_antitone_in_time p base t1 t2 pen1 pen2 :
  0 <= base -> 0 < amount_of (pos_lp p) -> t1 <= t2 ->
  calculate_emergency_penalty p base t1 = Ok pen1 -> calculate_emergency_penalty p base t2 = Ok pen2 ->
  pen2 <= pen1.
Proof.
  intros Hb Ha Ht H1 H2. apply penalty_spec in H1, H2.
  destruct H1 as (w1 & Hd & Hw1 & _ & ->). destruct H2 as (w2 & _ & Hw2 & _ & ->).
  rewrite Hw1 in Hw2. inversion Hw2; subst w2.
  pose proof (weight_ge_amount _ _ _ Hw1) as Hwa.
  assert (Hrem : 0 <= remaining_lock p t2 <= remaining_lock p t1).
  { unfold remaining_lock, ssub. destruct (pos_exp p); lia. }
  pose proof DEC_pos as HD.
  set (m := w1 * DEC / amount_of (pos_lp p)).
  assert (Hm : 0 <= m) by (apply Z.div_pos; nia).
  assert (R : 0 <= remaining_lock p t2 * DEC / pos_dur p <= remaining_lock p t1 * DEC / pos_dur p).
  { split; [apply Z.div_pos; nia | apply Z.div_le_mono; nia]. }
  assert (P1 : 0 <= base * (remaining_lock p t2 * DEC / pos_dur p) / DEC <= base * (remaining_lock p t1 * DEC / pos_dur p) / DEC).
  { split; [apply Z.div_pos; nia | apply Z.div_le_mono; nia]. }
  assert (P2 : base * (remaining_lock p t2 * DEC / pos_dur p) / DEC * m / DEC <= base * (remaining_lock p t1 * DEC / pos_dur p) / DEC * m / DEC).
  { apply Z.div_le_mono; nia. }
  lia.
Qed.

(* C09: zero once the lock has run out *)
Lemma penalty_zero_when_unlocked p base now pen e :
  pos_exp p = Some e -> e <= now -> calculate_emergency_penalty p base now = Ok pen -> pen = 0.
Proof.
  intros He Hn H. apply penalty_spec in H. destruct H as (w & Hd & _ & _ & ->).
  unfold remaining_lock, ssub. rewrite He. replace (Z.max 0 (e - now)) with 0 by lia.
  cbn. rewrite Z.mul_0_r. cbn. unfold MAX_PENALTY_CAP, PCT. lia.
Qed.

(* C09: the amount taken is strictly less than the position (and at most 90% of it) *)
Lemma penalty_amount_bound amount pen : 0 <= amount -> 0 <= pen <= PCT 90 -> amount * pen / DEC * 10 <= amount * 9.
Proof.
  intros Ha Hp. unfold PCT in Hp. pose proof DEC_pos.
  assert (amount * pen / DEC <= amount * 900000000000000000 / DEC) by (apply Z.div_le_mono; nia).
  assert (amount * 900000000000000000 / DEC * 10 <= amount * 9).
  { unfold DEC. pose proof (Z.mul_div_le (amount * 900000000000000000) 1000000000000000000 ltac:(lia)). lia. }
  lia.
Qed.
