(* StableProofs.v — what is provable about the integer Newton iterations of the stableswap code (C19). *)
From MD.Model Require Import Base PoolMath.
From MD.Proofs Require Import Tactics Arith PoolMathProofs.

(* the iteration either stops because two successive iterates are within the threshold, or fails with
   ConvergeError after the iteration budget: it never returns an unconverged value *)
Lemma newton_ok_converged n f thr : forall cur y,
  newton n f thr cur = Ok y -> exists prev, f prev = Ok y /\ Z.abs (y - prev) <= thr.
Proof.
  induction n as [|n IH]; intros cur y H; cbn [newton] in H; [discriminate|].
  apply bind_ok in H. destruct H as [nxt [Hn H]].
  destruct (Z.abs (nxt - cur) <=? thr) eqn:E.
  - inversion H; subst. exists cur. split; [exact Hn | lia].
  - eapply IH; eauto.
Qed.

Lemma newton_exhausted f thr cur : newton 0 f thr cur = Err "ConvergeError".
Proof. reflexivity. Qed.

(* with a step function that never gets within the threshold, all 255 iterations are spent and the call FAILS *)
Lemma newton_never_settles n f thr : forall cur,
  (forall x y, f x = Ok y -> thr < Z.abs (y - x)) -> exists e, newton n f thr cur = Err e.
Proof.
  induction n as [|n IH]; intros cur Hf; cbn [newton]; [eauto|].
  destruct (f cur) as [nxt|e] eqn:E; cbn [bind]; [|eauto].
  pose proof (Hf _ _ E) as Hn. replace (Z.abs (nxt - cur) <=? thr) with false by lia. apply IH. exact Hf.
Qed.

(* stableswap output never exceeds the reserve of the asked asset *)
Lemma to_uint_of_dec256 v p : 0 <= v -> 0 <= p <= 18 -> forall r a,
  dec256_with_precision v p = Ok r -> to_uint_with_precision r p = Ok a -> a = v.
Proof.
  intros Hv Hp r a H1 H2. unfold dec256_with_precision in H1. unfold to_uint_with_precision in H2.
  assert (Hk : 0 < 10 ^ (18 - p)) by (apply Z.pow_pos_nonneg; lia).
  remember (10 ^ (18 - p)) as k eqn:Ek.
  destruct (18 <? p) eqn:E0; [apply Z.ltb_lt in E0; lia|].
  assert (Ha : a = r / k) by congruence. subst a. clear H2.
  destruct (p <? 18) eqn:E.
  - unfold cmul in H1. apply chk_ok in H1. destruct H1 as [-> _]. apply Z.div_mul. lia.
  - apply Z.ltb_ge in E. assert (p = 18) by lia. subst p.
    replace (18 =? 18) with true in H1 by reflexivity. inversion H1; subst r.
    replace k with 1 by (subst k; reflexivity). apply Z.div_1_r.
Qed.

Lemma stableswap_y_nonneg p o a apa oa amp dir y : stableswap_y p o a apa oa amp dir = Ok y -> 0 <= y.
Proof.
  unfold stableswap_y. intros H.
  repeat (apply bind_ok in H; let v := fresh "v" in let Hv := fresh "Hv" in destruct H as [v [Hv H]]).
  apply chk_ok in H. lia.
Qed.

Lemma dec256_with_precision_nonneg v p r : 0 <= v -> dec256_with_precision v p = Ok r -> 0 <= r.
Proof.
  intros Hv H. unfold dec256_with_precision in H.
  destruct (p <? 18) eqn:E; [unfold cmul in H; apply chk_ok in H; destruct H as [-> [H _]]; exact H|].
  apply Z.ltb_ge in E.
  destruct (p =? 18); [inversion H; subst; lia|].
  destruct (p - 18 <? 78); inversion H; subst; [|lia].
  apply Z.div_pos; [lia|]. apply Z.pow_pos_nonneg; lia.
Qed.

Lemma ss_output_le_reserve p offer ask sc oc ac oi ai od ad amp :
  p_type p = StableSwap amp ->
  get_asset_indexes p (denom_of offer) ask = Ok (oc, ac, oi, ai, od, ad) ->
  0 <= amount_of ac -> 0 <= ad <= 18 ->
  compute_swap p offer ask = Ok sc ->
  sc_return sc + sc_swap_fee sc + sc_protocol_fee sc + sc_burn_fee sc + sc_extra_fees sc <= amount_of ac.
Proof.
  intros Ht Hg Hac Had H. unfold compute_swap in H. rewrite Hg in H. cbn [bind] in H. rewrite Ht in H.
  apply bind_ok in H. destruct H as [apd [Hapd H]].
  apply bind_ok in H. destruct H as [odc [_ H]].
  apply bind_ok in H. destruct H as [u [_ H]].
  apply bind_ok in H. destruct H as [np0 [Hnp0 H]]. apply stableswap_y_nonneg in Hnp0.
  apply bind_ok in H. destruct H as [np [Hnp H]].
  assert (Hnpn : 0 <= np).
  { destruct (ad <? maxZ_list (p_decimals p)); [|inversion Hnp; subst; exact Hnp0].
    apply bind_ok in Hnp. destruct Hnp as [t [Htt Hnp]]. inversion Hnp; subst np.
    apply dec256_with_precision_nonneg in Htt; [|exact Hnp0]. unfold dec_floor. apply Z.div_pos; [exact Htt | unfold DEC; lia]. }
  apply bind_ok in H. destruct H as [ap [Hap H]].
  apply bind_ok in H. destruct H as [ret [Hret H]].
  apply bind_ok in H. destruct H as [rd [_ H]].
  apply bind_ok in H. destruct H as [adjr [_ H]].
  apply bind_ok in H. destruct H as [adjo [_ H]].
  apply bind_ok in H. destruct H as [slip [_ H]].
  apply bind_ok in H. destruct H as [fc [_ H]].
  apply get_swap_computation_spec in H.
  destruct H as (R1 & R2 & _ & R4 & R5 & R6 & R7 & B1 & B2 & B3 & B4).
  pose proof (to_uint_of_dec256 _ _ Hac Had _ _ Hapd Hap) as ->.
  unfold csub in Hret. apply chk_ok in Hret. destruct Hret as [-> Hr].
  (* np >= 0 because it was accepted as a Uint256 *)
  lia.
Qed.
