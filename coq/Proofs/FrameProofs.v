(* FrameProofs.v — C17, the frame: the status switches of a pool influence only WHETHER an operation is accepted,
   never what an accepted operation does. Changing the switches of pool T changes no outcome of any swap, route,
   deposit or withdrawal whose own switch is on, on T or on any other pool. *)
From MD.Model Require Import Base Ownable Epoch PoolMath Types PoolManager FarmManager Chain.
From MD.Proofs Require Import Tactics MapLemmas PoolMathProofs SwapProofs PmProofs.

Definition restat_pool (T : string) (st : pool_status) (p : pool_info) : pool_info :=
  if String.eqb (p_id p) T then pool_with_status p st else p.
Definition restat (T : string) (st : pool_status) (s : pm_state) : pm_state :=
  pm_with_pools s (map (restat_pool T st) (pm_pools s)).
Definition on_state {B} (f : pm_state -> pm_state) (r : res (pm_state * B)) : res (pm_state * B) :=
  match r with Ok (s, b) => Ok (f s, b) | Err e => Err e end.

Lemma restat_pool_id T st p : p_id (restat_pool T st p) = p_id p.
Proof. unfold restat_pool. destruct (String.eqb (p_id p) T); reflexivity. Qed.

Section KeyPreservingMap.
  Context {A : Type} (key : A -> string) (f : A -> A) (Hk : forall a, key (f a) = key a).
  Lemma sfind_map k l : sfind key k (map f l) = option_map f (sfind key k l).
  Proof. induction l as [|x r IH]; cbn; [reflexivity|]. rewrite Hk. destruct (String.eqb k (key x)); [reflexivity | exact IH]. Qed.
  Lemma sreplace_map v l : sreplace key (f v) (map f l) = map f (sreplace key v l).
  Proof. induction l as [|x r IH]; cbn; [reflexivity|]. rewrite !Hk. destruct (String.eqb (key v) (key x)); cbn; [reflexivity | rewrite IH; reflexivity]. Qed.
  Lemma sins_sorted_map v l : sins_sorted key (f v) (map f l) = map f (sins_sorted key v l).
  Proof. induction l as [|x r IH]; cbn; [reflexivity|]. rewrite !Hk. destruct (String.ltb (key v) (key x)); cbn; [reflexivity | rewrite IH; reflexivity]. Qed.
  Lemma sinsert_map v l : sinsert key (f v) (map f l) = map f (sinsert key v l).
  Proof. unfold sinsert. rewrite Hk, sfind_map. destruct (sfind key (key v) l); cbn; [apply sreplace_map | apply sins_sorted_map]. Qed.
End KeyPreservingMap.

Lemma pool_find_restat T st s pid :
  pool_find (restat T st s) pid = match pool_find s pid with Ok p => Ok (restat_pool T st p) | Err e => Err e end.
Proof.
  unfold pool_find, restat. cbn [pm_pools pm_with_pools]. rewrite (sfind_map p_id _ (restat_pool_id T st)).
  destruct (sfind p_id pid (pm_pools s)); reflexivity.
Qed.

Lemma save_pool_restat T st s p :
  pm_save_pool (restat T st s) (restat_pool T st p) = restat T st (pm_save_pool s p).
Proof.
  unfold pm_save_pool, restat, pm_with_pools. cbn [pm_pools pm_cfg pm_own pm_counter pm_buffer].
  rewrite (sinsert_map p_id _ (restat_pool_id T st)). reflexivity.
Qed.

Lemma restat_with_assets T st p a : pool_with_assets (restat_pool T st p) a = restat_pool T st (pool_with_assets p a).
Proof. unfold restat_pool. cbn [p_id pool_with_assets]. destruct (String.eqb (p_id p) T); reflexivity. Qed.

(* every function of a pool used by the handlers ignores the status *)
Lemma restat_assets T st p : p_assets (restat_pool T st p) = p_assets p.
Proof. unfold restat_pool. destruct (String.eqb (p_id p) T); reflexivity. Qed.
Lemma restat_type T st p : p_type (restat_pool T st p) = p_type p.
Proof. unfold restat_pool. destruct (String.eqb (p_id p) T); reflexivity. Qed.
Lemma restat_lp T st p : p_lp (restat_pool T st p) = p_lp p.
Proof. unfold restat_pool. destruct (String.eqb (p_id p) T); reflexivity. Qed.
Lemma restat_decimals T st p : p_decimals (restat_pool T st p) = p_decimals p.
Proof. unfold restat_pool. destruct (String.eqb (p_id p) T); reflexivity. Qed.
Lemma restat_indexes T st p o a : get_asset_indexes (restat_pool T st p) o a = get_asset_indexes p o a.
Proof. unfold restat_pool. destruct (String.eqb (p_id p) T); reflexivity. Qed.
Lemma restat_compute_swap T st p o a : compute_swap (restat_pool T st p) o a = compute_swap p o a.
Proof. unfold restat_pool. destruct (String.eqb (p_id p) T); reflexivity. Qed.
Lemma restat_lp_mint T st amp a b ts p :
  compute_lp_mint_stableswap amp a b ts (restat_pool T st p) = compute_lp_mint_stableswap amp a b ts p.
Proof. unfold restat_pool. destruct (String.eqb (p_id p) T); reflexivity. Qed.

Ltac step_bind :=
  match goal with
  | |- context [bind ?x _] => destruct x as [?|?]; cbn [bind on_state]; try reflexivity
  end.

Lemma perform_swap_restat T st s o a pid bl ms :
  perform_swap (restat T st s) o a pid bl ms = on_state (restat T st) (perform_swap s o a pid bl ms).
Proof.
  unfold perform_swap. rewrite pool_find_restat.
  destruct (pool_find s pid) as [p|e]; cbn [bind on_state]; [|reflexivity].
  rewrite restat_indexes, restat_compute_swap, restat_assets.
  destruct (get_asset_indexes p (denom_of o) a) as [[[[[[x1 x2] oi] ai] x5] x6]|e]; cbn [bind on_state]; [|reflexivity].
  repeat step_bind.
  rewrite restat_with_assets, save_pool_restat. reflexivity.
Qed.

(* ---------- the switch an operation reads ---------- *)
Definition flag_of (s : pm_state) (pid : string) (sel : pool_status -> bool) : bool :=
  match pool_find s pid with Ok p => sel (p_status p) | Err _ => true end.

Lemma query_simulation_restat T st s o a pid : query_simulation (restat T st s) o a pid = query_simulation s o a pid.
Proof.
  unfold query_simulation. rewrite pool_find_restat. destruct (pool_find s pid); cbn [bind]; [apply restat_compute_swap | reflexivity].
Qed.

Lemma swap_restat T st w sender funds ask bp ms r pid :
  flag_of (w_pm w) pid swaps_enabled = true -> flag_of (restat T st (w_pm w)) pid swaps_enabled = true ->
  swap (set_pm w (restat T st (w_pm w))) sender funds ask bp ms r pid = on_state (restat T st) (swap w sender funds ask bp ms r pid).
Proof.
  unfold flag_of, swap. cbn [w_pm set_pm]. rewrite pool_find_restat.
  destruct (pool_find (w_pm w) pid) as [p|e]; cbn [bind on_state]; [|reflexivity].
  intros H1 H2. rewrite H1, H2. cbn [ensure bind]. rewrite restat_assets.
  change (addr_or_default (set_pm w (restat T st (w_pm w))) r sender) with (addr_or_default w r sender).
  change (pm_cfg (restat T st (w_pm w))) with (pm_cfg (w_pm w)).
  destruct (one_coin funds) as [offer|e]; cbn [bind on_state]; [|reflexivity].
  destruct (ensure (negb (String.eqb (denom_of offer) ask)) "SameAsset") as [[]|e]; cbn [bind on_state]; [|reflexivity].
  destruct (ensure (has_denom (p_assets p) ask && has_denom (p_assets p) (denom_of offer)) "AssetMismatch") as [[]|e]; cbn [bind on_state]; [|reflexivity].
  rewrite perform_swap_restat.
  destruct (perform_swap (w_pm w) offer ask pid bp ms) as [[s' sc]|e]; cbn [bind on_state]; reflexivity.
Qed.

(* a swap keeps every status *)
Lemma perform_swap_flags s o a pid bl ms s' sc id sel :
  perform_swap s o a pid bl ms = Ok (s', sc) -> flag_of s' id sel = flag_of s id sel.
Proof.
  intros H. apply perform_swap_spec in H. destruct H as (p & oi & ai & oc & ac & od & ad & Hp & _ & _ & _ & _ & _ & ->).
  unfold flag_of, pool_find, pm_save_pool. cbn [pm_pools pm_with_pools].
  pose proof (pool_find_id _ _ _ Hp) as Hp'. unfold pool_find in Hp. apply of_option_ok in Hp.
  destruct (String.eqb id (p_id p)) eqn:E.
  - apply String.eqb_eq in E. subst id. rewrite (sfind_sinsert_same p_id (pool_with_assets p _)). rewrite Hp'. reflexivity.
  - rewrite sfind_sinsert_other; [reflexivity|]. cbn [p_id pool_with_assets]. intros C. subst. rewrite String.eqb_refl in E. discriminate.
Qed.

Lemma route_loop_restat T st ops : forall s prev ms fm,
  Forall (fun o => flag_of s (so_pool o) swaps_enabled = true) ops ->
  Forall (fun o => flag_of (restat T st s) (so_pool o) swaps_enabled = true) ops ->
  route_loop (restat T st s) prev ops ms fm =
  match route_loop s prev ops ms fm with Ok (s', out, fms) => Ok (restat T st s', out, fms) | Err e => Err e end.
Proof.
  induction ops as [|o r IH]; intros s prev ms fm H1 H2; cbn [route_loop]; [reflexivity|].
  inversion H1 as [|x xs G1 R1]; subst. inversion H2 as [|x xs G2 R2]; subst.
  unfold flag_of in G1, G2. rewrite pool_find_restat in G2. rewrite pool_find_restat.
  destruct (pool_find s (so_pool o)) as [p|e]; cbn [bind]; [|reflexivity].
  rewrite G1, G2. cbn [ensure bind]. rewrite perform_swap_restat.
  destruct (perform_swap s prev (so_out o) (so_pool o) None ms) as [[s' sc]|e] eqn:Eps; cbn [bind on_state]; [|reflexivity].
  change (pm_cfg (restat T st s)) with (pm_cfg s).
  assert (Eps' : perform_swap (restat T st s) prev (so_out o) (so_pool o) None ms = Ok (restat T st s', sc))
    by (rewrite perform_swap_restat, Eps; reflexivity).
  apply IH.
  - eapply Forall_impl; [|exact R1]. intros a Ha. cbv beta in *.
    rewrite (perform_swap_flags _ _ _ _ _ _ _ _ (so_pool a) swaps_enabled Eps). exact Ha.
  - eapply Forall_impl; [|exact R2]. intros a Ha. cbv beta in *.
    rewrite (perform_swap_flags _ _ _ _ _ _ _ _ (so_pool a) swaps_enabled Eps'). exact Ha.
Qed.

Lemma route_restat T st w sender funds ops mr r ms :
  Forall (fun o => flag_of (w_pm w) (so_pool o) swaps_enabled = true) ops ->
  Forall (fun o => flag_of (restat T st (w_pm w)) (so_pool o) swaps_enabled = true) ops ->
  execute_swap_operations (set_pm w (restat T st (w_pm w))) sender funds ops mr r ms =
  on_state (restat T st) (execute_swap_operations w sender funds ops mr r ms).
Proof.
  intros H1 H2. unfold execute_swap_operations. cbn [w_pm set_pm].
  change (addr_or_default (set_pm w (restat T st (w_pm w))) r sender) with (addr_or_default w r sender).
  destruct (of_option (last (map Some ops) None) "NoSwapOperationsProvided") as [lst|e]; cbn [bind on_state]; [|reflexivity].
  destruct (of_option (hd_error ops) "NoSwapOperationsProvided") as [fo|e]; cbn [bind on_state]; [|reflexivity].
  destruct (must_pay funds (so_in fo)) as [amount|e]; cbn [bind on_state]; [|reflexivity].
  destruct (assert_operations (so_in fo) ops) as [[]|e]; cbn [bind on_state]; [|reflexivity].
  rewrite (route_loop_restat T st ops _ _ _ _ H1 H2).
  destruct (route_loop (w_pm w) (so_in fo, amount) ops ms []) as [[[s' out] fms]|e]; cbn [bind on_state]; [|reflexivity].
  destruct mr as [m|]; [destruct (ensure (negb (amount_of out <? m)) "MinimumReceiveAssertion") as [[]|e]|]; cbn [bind on_state]; reflexivity.
Qed.

Lemma withdraw_restat T st w sender funds pid :
  flag_of (w_pm w) pid withdrawals_enabled = true -> flag_of (restat T st (w_pm w)) pid withdrawals_enabled = true ->
  withdraw_liquidity (set_pm w (restat T st (w_pm w))) sender funds pid = on_state (restat T st) (withdraw_liquidity w sender funds pid).
Proof.
  unfold flag_of, withdraw_liquidity. cbn [w_pm set_pm]. rewrite pool_find_restat.
  destruct (pool_find (w_pm w) pid) as [p|e]; cbn [bind on_state]; [|reflexivity].
  intros H1 H2. rewrite H1, H2. cbn [ensure bind]. rewrite restat_lp, restat_assets.
  change (total_share (set_pm w (restat T st (w_pm w))) (p_lp p)) with (total_share w (p_lp p)).
  repeat step_bind.
  rewrite restat_with_assets, save_pool_restat. reflexivity.
Qed.

Lemma save_restat_lit T st s p a :
  pm_save_pool (restat T st s) (pool_with_assets (restat_pool T st p) a) = restat T st (pm_save_pool s (pool_with_assets p a)).
Proof. rewrite restat_with_assets, save_pool_restat. reflexivity. Qed.

Lemma provide_restat T st w sender funds ls ss r pid u l :
  flag_of (w_pm w) pid deposits_enabled = true -> flag_of (restat T st (w_pm w)) pid deposits_enabled = true ->
  provide_liquidity (set_pm w (restat T st (w_pm w))) sender funds ls ss r pid u l =
  on_state (restat T st) (provide_liquidity w sender funds ls ss r pid u l).
Proof.
  unfold flag_of, provide_liquidity. cbn [w_pm set_pm]. rewrite pool_find_restat.
  destruct (pool_find (w_pm w) pid) as [p|e]; cbn [bind on_state]; [|reflexivity].
  intros H1 H2. rewrite H1, H2. cbn [ensure bind].
  change (addr_or_default (set_pm w (restat T st (w_pm w))) r sender) with (addr_or_default w r sender).
  change (pm_cfg (restat T st (w_pm w))) with (pm_cfg (w_pm w)).
  change (w_bank (set_pm w (restat T st (w_pm w)))) with (w_bank w).
  change (q_position (set_pm w (restat T st (w_pm w)))) with (q_position w).
  change (addr_valid (set_pm w (restat T st (w_pm w)))) with (addr_valid w).
  (* the final state, in the form the two computations produce it *)
  assert (Hfin : forall a, pm_save_pool (restat T st (w_pm w)) (pool_with_assets (restat_pool T st p) a) =
                           restat T st (pm_save_pool (w_pm w) (pool_with_assets p a))) by (intros; apply save_restat_lit).
  assert (Hsim : forall o a, query_simulation (restat T st (w_pm w)) o a pid = query_simulation (w_pm w) o a pid)
    by (intros; apply query_simulation_restat).
  assert (Hbuf : forall b, pm_with_buffer (restat T st (w_pm w)) b = restat T st (pm_with_buffer (w_pm w) b)) by reflexivity.
  revert Hfin Hsim Hbuf. generalize (restat T st (w_pm w)) as s2. intros s2 Hfin Hsim Hbuf.
  change (total_share (set_pm w s2) ?x) with (total_share w x).
  unfold restat_pool in *. clear H1 H2.
  destruct p as [id dn dc asts ty lp fe sts]. cbn [p_id] in *.
  destruct (String.eqb id T);
    unfold pool_with_status, compute_lp_mint_stableswap, compute_d_with_pool_info, find_denom_decimals, total_share in *;
    cbn [p_id p_denoms p_decimals p_assets p_type p_lp p_fees p_status w_bank set_pm] in *.
  all: destruct (aggregate_coins funds) as [deps|e]; cbn [bind on_state]; [|reflexivity].
  all: destruct (ensure (negb (Nat.eqb (List.length deps) 0)) "EmptyAssets") as [[]|e]; cbn [bind on_state]; [|reflexivity].
  all: destruct (ensure (forallb (fun c => has_denom asts (denom_of c)) deps) "AssetMismatch") as [[]|e]; cbn [bind on_state]; [|reflexivity].
  all: destruct deps as [|d0 [|d1 rest]].
  2, 5: (step_bind; step_bind; step_bind; step_bind; rewrite Hsim; repeat step_bind; cbn [on_state];
         apply f_equal; apply f_equal2; [apply Hbuf | reflexivity]).
  all: destruct ty as [|amp];
       repeat first [step_bind | match goal with |- context [let '(_, _) := ?a in _] => destruct a end];
       cbn [on_state]; try reflexivity; try (apply f_equal; apply f_equal2; [apply Hfin | reflexivity]).
Qed.

(* ---------- every pool operation ---------- *)
Definition gate (m : pm_msg) (s : pm_state) : bool :=
  match m with
  | PmSwap _ _ _ _ pid => flag_of s pid swaps_enabled
  | PmRoute ops _ _ _ => forallb (fun o => flag_of s (so_pool o) swaps_enabled) ops
  | PmProvide _ _ _ pid _ _ => flag_of s pid deposits_enabled
  | PmWithdraw pid => flag_of s pid withdrawals_enabled
  | _ => true
  end.
Definition pool_op (m : pm_msg) : bool :=
  match m with PmSwap _ _ _ _ _ | PmRoute _ _ _ _ | PmProvide _ _ _ _ _ _ | PmWithdraw _ => true | _ => false end.

(* C17, the frame: let the switches of pool T be changed to ANY status st. Every swap, route, deposit or withdrawal
   (on T or on any other pool) whose own switch is on before and after the change is accepted or rejected exactly as
   before, with the same error, the same messages and the same resulting state (up to the changed switches). *)
Theorem frame_execute T st w sender funds m :
  pool_op m = true -> gate m (w_pm w) = true -> gate m (restat T st (w_pm w)) = true ->
  pm_execute (set_pm w (restat T st (w_pm w))) sender funds m = on_state (restat T st) (pm_execute w sender funds m).
Proof.
  destruct m as [denoms decimals fees pt oid | ls ss r pid u l | ask bp ms r pid | pid | a | ops mr r ms | fc fm fee t];
    cbn [pool_op gate pm_execute]; intros Hop G1 G2; try discriminate.
  - apply provide_restat; assumption.
  - apply swap_restat; assumption.
  - apply withdraw_restat; assumption.
  - rewrite forallb_forall in G1, G2. apply route_restat; apply Forall_forall; intros o Ho; [apply G1 | apply G2]; exact Ho.
Qed.

(* what the switches of pool T do to the gate of an operation: nothing for operations on other pools *)
Lemma flag_restat_other T st s pid sel : pid <> T -> flag_of (restat T st s) pid sel = flag_of s pid sel.
Proof.
  intros Hne. unfold flag_of. rewrite pool_find_restat. destruct (pool_find s pid) as [p|e] eqn:E; [|reflexivity].
  unfold restat_pool. apply pool_find_ok in E.
  assert (Hid : p_id p = pid) by (apply sfind_key in E; exact E).
  rewrite Hid. destruct (String.eqb pid T) eqn:Eq; [apply String.eqb_eq in Eq; contradiction | reflexivity].
Qed.
Lemma flag_restat_same T st s sel p : pool_find s T = Ok p -> flag_of (restat T st s) T sel = sel st.
Proof.
  intros Hp. unfold flag_of. rewrite pool_find_restat, Hp. unfold restat_pool.
  pose proof (proj1 (pool_find_ok _ _ _) Hp) as E. apply sfind_key in E. rewrite E, String.eqb_refl. reflexivity.
Qed.

(* corollaries in the words of the property *)
Corollary other_pools_unaffected T st w sender funds m :
  pool_op m = true -> gate m (w_pm w) = true ->
  (match m with
   | PmSwap _ _ _ _ pid | PmProvide _ _ _ pid _ _ | PmWithdraw pid => pid <> T
   | PmRoute ops _ _ _ => Forall (fun o => so_pool o <> T) ops
   | _ => True end) ->
  pm_execute (set_pm w (restat T st (w_pm w))) sender funds m = on_state (restat T st) (pm_execute w sender funds m).
Proof.
  intros Hop G Hne. apply frame_execute; [exact Hop | exact G|].
  destruct m as [denoms decimals fees pt oid | ls ss r pid u l | ask bp ms r pid | pid | a | ops mr r ms | fc fm fee t];
    cbn [gate pool_op] in *; try discriminate; try (rewrite flag_restat_other; assumption).
  rewrite forallb_forall in *. intros o Ho. rewrite Forall_forall in Hne. rewrite flag_restat_other; [apply G; exact Ho | apply Hne; exact Ho].
Qed.
