(* C01, the excess clause for SINGLE-ASSET deposits locked in the farm manager: the swap of half the deposit to the pool
   manager itself, the reply, the deposit of the kept half and the proceeds, the mint to the pool manager and the nested call
   of the farm manager leave the surplus changed by exactly the odd unit (and the minimum liquidity of a first deposit). *)
From Coq Require Import ZArith List String Lia Bool.
From MD.Model Require Import Base Ownable Epoch Types PoolMath PoolManager FarmManager Chain.
From MD.Proofs Require Import Tactics Arith PoolMathProofs MapLemmas BankProofs SwapProofs SlippageProofs ChainProofs PmProofs PmChainProofs LiquidityProofs FarmProofs
  PoolCustody PoolCustodyChain SingleSided TxBalances TxExcess LockedExcess.
Import ListNotations.
Open Scope Z_scope.

Theorem single_asset_locked_tx_excess w sender funds ls ss r pid dur l deposit w' :
  sender <> PM -> pm_farm_manager (pm_cfg (w_pm w)) = FM -> aggregate_coins funds = Ok [deposit] ->
  run_tx w sender PM (WPm (PmProvide ls ss r pid (Some dur) l)) funds = Ok w' ->
  exists p askc sim minliq,
    pool_find (w_pm w) pid = Ok p /\
    query_simulation (w_pm w) (denom_of deposit, amount_of deposit / 2) (denom_of askc) pid = Ok sim /\ 0 <= minliq /\
    forall d, slackP w' d = slackP w d
                + ind (String.eqb (denom_of deposit) d) (amount_of deposit mod 2)                      (* the odd unit *)
                + ind (String.eqb PM (pm_fee_collector (pm_cfg (w_pm w)))) (ind (String.eqb (denom_of askc) d) (sc_protocol_fee sim))
                + ind (String.eqb (p_lp p) d) minliq.
Proof.
  intros Hs Hfmc Hagg H. unfold run_tx in H.
  destruct (process FUEL w sender [plain (MWasm PM (WPm (PmProvide ls ss r pid (Some dur) l)) funds)]) as [[wx|ex] flx] eqn:Ep; cbn [fst] in H; [|discriminate].
  inversion H; subst wx; clear H. unfold FUEL in Ep.
  destruct (plain_call _ _ _ _ _ _ _ _ Ep) as (wa & fla & w2 & subs2 & fl2 & Eb & Eh & E2).
  (* funds: sender -> pool manager *)
  assert (Htr : same_contracts w wa /\ forall a d, bal (w_bank wa) a d = bal (w_bank w) a d - ind (String.eqb a sender) (camt funds d) + ind (String.eqb a PM) (camt funds d)).
  { destruct funds as [|f0 fr].
    - inversion Eb; subst. split; [apply same_contracts_refl|]. intros a d. cbn [camt]. unfold ind. destruct (String.eqb a sender), (String.eqb a PM); lia.
    - split; [eapply bank_call_same; exact Eb|]. intros a d.
      unfold bank_call, fault_tick in Eb. destruct (w_fault w) as [k|];
        try (destruct (k =? 0); [discriminate|]); cbn [w_bank set_fault] in Eb;
        (destruct (bank_send (w_bank w) sender PM (f0 :: fr)) as [b'|e] eqn:Ebs; [|discriminate]);
        inversion Eb; subst; cbn [w_bank set_bank set_fault]; apply bank_send_spec in Ebs; destruct Ebs as [_ Hb]; rewrite Hb; reflexivity. }
  destruct Htr as [(_ & Htfa & Hval & _ & _ & Hpma & _) Hbala].
  destruct (handle_pm_bank _ _ _ _ _ _ Eh) as (s0 & Hx & ->). cbn [pm_execute] in Hx.
  destruct (provide_single_spec _ _ _ _ _ _ _ _ _ _ _ _ Hagg Hx) as (p & askc & sim & Hp & _ & _ & _ & _ & Hfind & Hsim & Hs0 & Hm0).
  subst subs2.
  set (b := {| sb_receiver := addr_or_default wa r sender;
               sb_expected_offer := (denom_of deposit, bal (w_bank wa) PM (denom_of deposit));
               sb_expected_ask := (denom_of askc, ssub (bal (w_bank wa) PM (denom_of askc)) (sc_protocol_fee sim + sc_burn_fee sim));
               sb_offer_half := (denom_of deposit, amount_of deposit / 2);
               sb_expected_ask_asset := (denom_of askc, sc_return sim);
               sb_data := {| ld_swap_slip := ss; ld_liq_slip := ls; ld_pool := pid; ld_unlock := Some dur; ld_lock_id := l |} |}) in *.
  assert (Hbuf : pm_buffer (w_pm (set_pm wa s0)) = Some b) by (rewrite Hs0; reflexivity).
  assert (Hsim' : query_simulation (w_pm (set_pm wa s0)) (denom_of deposit, amount_of deposit / 2) (denom_of askc) pid = Ok sim)
    by (rewrite Hs0; exact Hsim).
  change (process 7 (set_pm wa s0) PM [single_elem (denom_of deposit) (amount_of deposit / 2) (denom_of askc) pid ss] = (Ok w', fl2)) in E2.
  destruct (single_chain _ _ _ _ b _ _ _ _ _ _ Hbuf eq_refl eq_refl Hsim' E2)
    as (wc & flc & s1 & msgs1 & w1 & fl1 & fl3 & Ebc & Hswap & Hps & Hleaf & E1 & Hpm1 & Hb1 & E3).
  (* leg 1: the swap's bank messages *)
  pose proof (fun a d => self_send_bal _ _ _ _ a d Ebc) as Hbalc. cbn [w_bank set_pm] in Hbalc.
  pose proof (bank_call_same _ _ _ _ Ebc) as (_ & Htfc & _).  cbn [w_tf_fee set_pm] in Htfc.
  rewrite (process_leaves 5 _ PM msgs1 Hleaf) in E1.
  pose proof (fun a d => exec_leaves_bal msgs1 _ _ _ _ a d Hleaf E1) as Hbal1. cbn [w_bank set_pm w_tf_fee] in Hbal1.
  pose proof (exec_leaves_same _ _ _ _ _ Hleaf E1) as (_ & Htf1 & _). cbn [w_tf_fee set_pm] in Htf1.
  pose proof Hswap as Hswap'. apply swap_spec in Hswap'. destruct Hswap' as (p1 & offer & sc & _ & _ & Hone & _ & Hps1 & Hmsgs1).
  apply one_coin_single in Hone. subst offer.
  pose proof (bank_call_same _ _ _ _ Ebc) as (_ & _ & _ & _ & _ & Hpmc & _). cbn [w_pm set_pm] in Hpmc.
  assert (sc = sim) by (rewrite Hpmc in Hps1; cbn [w_pm set_pm] in Hps; congruence). subst sc.
  assert (Hcfgc : pm_cfg (w_pm wc) = pm_cfg (w_pm w)) by (rewrite Hpmc, Hs0; cbn [pm_cfg pm_with_buffer]; rewrite Hpma; reflexivity).
  cbn [w_pm set_pm] in Hps. rewrite Hs0 in Hps.
  destruct (perform_swap_with_buffer _ _ _ _ _ _ _ _ _ Hps) as (s1' & Hps' & Hs1eq).
  (* leg 2: the deposit of the kept half and the proceeds *)
  destruct (plain_call _ _ _ _ _ _ _ _ E3) as (wb & flb & w4 & subs4 & fl4 & Ebb & Eh4 & E4).
  pose proof (fun a d => self_send_bal _ _ _ _ a d Ebb) as Hbalb. cbn [w_bank set_pm] in Hbalb.
  pose proof (bank_call_same _ _ _ _ Ebb) as (_ & Htfb & Hvalb & _ & _ & Hpmb & _). cbn [w_tf_fee w_pm set_pm w_valid] in Htfb, Hpmb, Hvalb.
  destruct (handle_pm_bank _ _ _ _ _ _ Eh4) as (s2 & Hx4 & ->).
  cbn [pm_execute sb_data ld_liq_slip ld_swap_slip ld_pool ld_unlock ld_lock_id sb_receiver sb_offer_half sb_expected_ask_asset b] in Hx4.
  assert (Hdn : denom_of askc <> denom_of deposit).
  { apply find_some in Hfind. destruct Hfind as [_ Hf]. apply negb_true_iff in Hf. apply String.eqb_neq in Hf. exact Hf. }
  assert (Hagg4 : exists x y, aggregate_coins [(denom_of deposit, amount_of deposit / 2); (denom_of askc, sc_return sim)] = Ok [x; y]).
  { unfold aggregate_coins. cbn [foldM agg_insert bind denom_of fst].
    destruct (String.compare (denom_of askc) (denom_of deposit)) eqn:Ec; cbn [bind]; eauto.
    exfalso. apply Hdn. apply compare_eq_eqb in Ec. apply String.eqb_eq in Ec. exact Ec. }
  destruct Hagg4 as (x & y & Hagg4).
  destruct (provide_locked_exact _ _ _ _ _ _ _ _ _ _ _ _ _ _ Hagg4 Hx4) as (p2 & shares & first & fmmsg & Hp2 & Hfirst & Hm4 & Hfmm & Hres4).
  assert (Hcfgb : pm_farm_manager (pm_cfg (w_pm wb)) = FM).
  { rewrite Hpmb. cbn [w_pm set_pm]. rewrite Hs1eq. cbn [pm_cfg pm_with_buffer].
    apply perform_swap_cfg in Hps'. rewrite Hps'. cbn [pm_cfg pm_with_buffer]. rewrite Hpma. exact Hfmc. }
  rewrite Hcfgb in Hm4. subst subs4.
  replace (first ++ [plain (MTfMint (p_lp p2, shares) PM); plain (MWasm FM (WFm fmmsg) [(p_lp p2, shares)])])%list
    with ((first ++ [plain (MTfMint (p_lp p2, shares) PM)]) ++ [plain (MWasm FM (WFm fmmsg) [(p_lp p2, shares)])])%list in E4
    by (rewrite <- app_assoc; reflexivity).
  assert (Hleaf4 : forallb plain_leaf (first ++ [plain (MTfMint (p_lp p2, shares) PM)]) = true).
  { rewrite forallb_app. destruct Hfirst as [->|(ml & _ & ->)]; reflexivity. }
  rewrite (process_leaves_then 4 _ PM _ _ Hleaf4) in E4.
  destruct (exec_leaves (set_pm wb s2) PM (first ++ [plain (MTfMint (p_lp p2, shares) PM)])) as [[w5|e5] fl5] eqn:El5; [|discriminate].
  pose proof (fun a d => exec_leaves_bal _ _ _ _ _ a d Hleaf4 El5) as Hbal4. cbn [w_bank set_pm w_tf_fee] in Hbal4.
  pose proof (exec_leaves_same _ _ _ _ _ Hleaf4 El5) as (_ & _ & _ & _ & _ & Hpm5 & _). cbn [w_pm set_pm] in Hpm5.
  destruct (plain_call _ _ _ _ _ _ _ _ E4) as (w6 & fl6 & w7 & subs7 & fl7 & Eb6 & Eh7 & E7).
  destruct (bank_call_send_bal _ _ _ _ _ _ Eb6) as [Hs6 Hbal6].
  destruct Hs6 as (_ & _ & _ & _ & _ & Hpm6 & _).
  apply handle_ok_typed in Eh7. destruct Eh7 as (Eh7 & _ & _).
  unfold handle_typed in Eh7. cbn [String.eqb EM FC PM FM Ascii.eqb Bool.eqb] in Eh7.
  apply bind_ok in Eh7. destruct Eh7 as [[s7 msgs7] [Hx7 Eh7]]. inversion Eh7; subst w7 subs7; clear Eh7.
  assert (Hm7 : msgs7 = []).
  { destruct Hfmm as [(id & rcv & ->)|(id & ->)]; cbn [fm_execute] in Hx7.
    - apply create_position_spec in Hx7. tauto.
    - apply expand_position_spec in Hx7. tauto. }
  subst msgs7. rewrite process_nil in E7. inversion E7; subst w'; clear E7.
  (* the pool is the same pool all along *)
  assert (Hpsame : p_lp p2 = p_lp p).
  { rewrite Hpmb in Hp2. cbn [w_pm set_pm] in Hp2. rewrite Hs1eq in Hp2.
    apply perform_swap_spec in Hps'. destruct Hps' as (q & oi & ai & oc & ac & od & ad & Hq & _ & _ & _ & _ & _ & Hs1').
    assert (q = p) by congruence. subst q.
    unfold pool_find in Hp2. rewrite Hs1' in Hp2. cbn [pm_pools pm_with_buffer pm_save_pool pm_with_pools] in Hp2.
    apply of_option_ok in Hp2.
    pose proof (proj1 (pool_find_ok _ _ _) Hp) as Hk. apply sfind_key in Hk.
    rewrite <- Hk in Hp2. change (p_id p) with (p_id (pool_with_assets p (swap_new_assets p oi ai oc ac (amount_of (denom_of deposit, amount_of deposit / 2)) sim))) in Hp2 at 1.
    rewrite sfind_sinsert_same in Hp2. inversion Hp2. reflexivity. }
  set (minliq := match first with [s0] => match sm_msg s0 with MTfMint c _ => amount_of c | _ => 0 end | _ => 0 end).
  exists p, askc, sim, minliq.
  rewrite <- Hpma. split; [exact Hp|]. split; [exact Hsim|].
  split; [destruct Hfirst as [->|(ml & Hml & ->)]; cbn; [lia | exact Hml]|].
  intros d. unfold slackP. cbn [w_pm w_bank set_fm]. rewrite Hpm6, Hpm5, (Hres4 d), Hpmb. cbn [w_pm set_pm].
  assert (Hr1 : res (pm_with_buffer s1 None) d = res s1' d) by (rewrite Hs1eq; reflexivity). rewrite Hr1.
  destruct (perform_swap_res _ _ _ _ _ _ _ _ d Hps') as (Hrs & Hr0 & Hp0 & Hb0). rewrite Hrs.
  rewrite (Hbal6 PM d), (Hbal4 PM d), Htfb, (Hbalb PM d), (Hbal1 PM d), Htf1, Htfc, (Hbalc PM d), (Hbala PM d).
  assert (Hsp : String.eqb PM sender = false) by (apply String.eqb_neq; congruence). rewrite Hsp, String.eqb_refl.
  rewrite <- (aggregate_camt _ _ d Hagg).
  subst msgs1.
  repeat match goal with |- context [addr_or_default ?x None PM] => change (addr_or_default x None PM) with PM end.
  rewrite Hpsame, Hpma, Hcfgc, Htfa.
  pose proof (Z.div_mod (amount_of deposit) 2 ltac:(lia)) as Hdm.
  unfold swap_fee_msgs. change (String.eqb PM FM) with false.
  destruct Hfirst as [->|(ml & Hml & ->)]; subst minliq;
    destruct (sc_return sim =? 0) eqn:E0, (sc_burn_fee sim =? 0) eqn:E1b, (sc_protocol_fee sim =? 0) eqn:E2p;
    cbn [app leaves_eff leaf_eff plain sm_msg camt denom_of amount_of fst snd];
    rewrite ?String.eqb_refl, ?Hpsame; unfold ind;
    destruct (String.eqb (denom_of deposit) d) eqn:Ed1, (String.eqb (denom_of askc) d) eqn:Ed2;
    try (exfalso; apply String.eqb_eq in Ed1, Ed2; apply Hdn; congruence);
    destruct (String.eqb (p_lp p) d),
      (String.eqb PM (pm_fee_collector (pm_cfg (w_pm w)))); lia.
Qed.
