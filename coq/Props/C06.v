(* Property C06 — rewards paid never exceed what a farm has emitted. PARTIAL.
   Proved: every reward entry is within the farm's remaining budget and is floor(rate * share) for an epoch strictly
   after the claimant's cursor, not before the farm's start and before its end (so cumulative payouts of a farm never
   exceed the funded amount: each claim re-checks claimed + reward <= amount, and the stored claimed amount only
   grows and stays <= the funded amount); a claim moves the cursor to its bound, and the next claim starts at
   cursor + 1 — no epoch is paid twice to the same user.
   Refuted / known classes (genuine defects): F-until (an until_epoch older than the claimant's newest snapshot
   rewrites his history: paid for epochs before his weight took effect, share > 1, later claims of others or his own
   fail FarmExhausted), F-sat (total one unit below the sum), F-clamp.
   Not proved: sum over users <= emission per farm-epoch (needs total >= sum of users' weights, C10, false in the
   F-sat class) and "no claim makes another user's rightful claim fail"; both are covered by the correspondence only.
   Statements only. *)
From MD.Model Require Import Base Ownable Epoch PoolMath Types PoolManager FarmManager Chain.
From MD.Proofs Require Import WeightProofs FarmProofs RewardProofs FarmCustody FarmCustodyChain BankProofs TxFarm EmissionBound Reconcile PositionsSafe CursorSafe PositionsExample.

(* over ALL histories (any users, any interleaving, rejected operations, injected faults): the recorded payouts of
   every farm of every reachable world stay within what the farm was funded with; together with C05 (the farm manager's
   balance covers all positions plus all unclaimed budgets) no claim can draw on another farm's or a position's funds *)
Theorem C06_payouts_never_exceed_funding_in_any_reachable_world : forall g w0 ops f,
  genesis_world g = Ok w0 -> 0 <= amount_of (fm_create_fee (g_fm g)) -> Forall op_ok ops ->
  In f (fm_farms (w_fm (run w0 ops))) -> 0 <= f_claimed f <= amount_of (f_asset f).
Proof. exact reachable_claimed_bounded. Qed.

Theorem C06_every_reward_within_budget_and_after_cursor : forall s f lp recv until lc rs,
  farm_rewards s f lp recv until lc = Ok rs ->
  exists start, start_from_epoch s (f_lp f) recv lc = Ok start /\
    (match lc with Some c => start = c + 1 | None => True end) /\
    forall e r, In (e, r) rs ->
      start <= e /\ e <= until /\ f_start f <= e /\ e < f_end f /\
      exists total, contract_weight_at (fm_weights s) lp start e = Ok (Some total) /\ total <> 0 /\
        r = f_rate f * address_weight_at (fm_weights s) recv lp start e / total /\
        r + f_claimed f <= amount_of (f_asset f).
Proof. exact farm_rewards_entries. Qed.

(* the bookkeeping of claimed amounts: only grows, never beyond the funded amount, nothing else of a farm changes *)
Theorem C06_claimed_amount_bounded : forall modified fs fs',
  foldM (fun fs m =>
           let* f := of_option (sfind f_id (fst m) fs) "panic: unwrap on None" in
           let* c := cadd U128_MAX (f_claimed f) (snd m) in
           let* _ := ensure (c <=? amount_of (f_asset f)) "FarmExhausted" in
           Ok (sinsert f_id {| f_id := f_id f; f_owner := f_owner f; f_lp := f_lp f; f_asset := f_asset f;
                               f_claimed := c; f_rate := f_rate f; f_start := f_start f; f_end := f_end f |} fs))
        modified fs = Ok fs' ->
  Forall (fun m => 0 <= snd m) modified ->
  forall id f', sfind f_id id fs' = Some f' ->
    exists f, sfind f_id id fs = Some f /\ farm_same_but_claimed f f' \/ (sfind f_id id fs = Some f' /\ f = f').
Proof. exact claim_farm_update_bounded. Qed.

Theorem C06_no_epoch_paid_twice : forall w sender funds until s' msgs,
  claim w sender funds until = Ok (s', msgs) ->
  exists ep u, q_current_epoch w (fm_epoch_manager (fm_cfg (w_fm w))) = Ok ep /\
    until_epoch_or_current until (ep_id ep) = Ok u /\ u <= ep_id ep /\
    lc_get (fm_last_claimed s') sender = Some u.
Proof. exact claim_moves_cursor. Qed.

(* THE WHOLE TRANSACTION, every bank balance: the Rewards query on the state before a Claim transaction gives exactly what
   that transaction moves from the farm manager to the claimant; no other balance changes *)
Theorem C06_claim_transaction_pays_exactly_what_rewards_quotes : forall w sender until funds w',
  addr_valid w sender = true -> NoDup (map f_id (fm_farms (w_fm w))) ->
  run_tx w sender FM (WFm (FmClaim until)) funds = Ok w' ->
  exists total,
    funds = [] /\ query_rewards w (w_fm w) sender until = aggregate_coins total /\
    match total with
    | [] => forall a d, bal (w_bank w') a d = bal (w_bank w) a d
    | _ => exists agg, query_rewards w (w_fm w) sender until = Ok agg /\
             forall a d, bal (w_bank w') a d = bal (w_bank w) a d
                           - ind (String.eqb a FM) (camt agg d) + ind (String.eqb a sender) (camt agg d)
    end.
Proof. exact claim_tx_balances. Qed.

(* THE PER-EPOCH EMISSION BOUND (conditional): every reward entry is floor(rate * user weight / total weight)
   (C06_every_reward_within_budget_and_after_cursor); for ANY set of users whose weights in that epoch add up to at most the
   total weight used as the divisor, these floors add up to at most the farm's emission rate - and over any number of epochs
   to at most rate x number of epochs. The premise (sum of the users' weights <= total) is C10's clause; it fails only in the
   saturating-subtraction class F-sat, which is exactly where the known finding lets payouts of one epoch exceed the emission. *)
Theorem C06_epoch_emission_bound : forall rate total ws,
  0 <= rate -> 0 < total -> zsum ws <= total ->
  zsum (map (fun w => rate * w / total) ws) <= rate.
Proof. exact epoch_emission_bound. Qed.

Theorem C06_emission_bound_over_epochs : forall rate (epochs : list (Z * list Z)),
  0 <= rate -> Forall (fun tw => 0 < fst tw /\ zsum (snd tw) <= fst tw) epochs ->
  zsum (map (fun tw => zsum (map (fun w => rate * w / fst tw) (snd tw))) epochs) <= rate * Z.of_nat (List.length epochs).
Proof. exact emission_bound_over_epochs. Qed.

(* "No user is paid for an epoch before their position's weight took effect": every reward entry for an epoch before the
   user's first weight entry for the LP denom is zero (and position changes are recorded for the epoch after the operation,
   C10_changes_take_effect_next_epoch). The known findings F-until / F-first-epoch are about what a claim's synchronisation
   later does to that first entry, not about this computation. *)
Theorem C06_no_reward_before_the_first_weight_entry : forall s f lp recv until lc rs e0 x0,
  farm_rewards s f lp recv until lc = Ok rs ->
  w_earliest (fm_weights s) recv lp = Some (e0, x0) ->
  forall e r, In (e, r) rs -> e < e0 -> r = 0.
Proof. exact no_reward_before_first_entry. Qed.

(* OVER HISTORIES. A user's claim cursor (the last epoch paid to him) moves only through his own transactions: through ANY
   history of operations that o does not sign - other users' positions, claims, closes, farm operations, calls between
   the contracts, replies, rejected operations, injected faults - o's cursor is exactly what it was. Nobody else can
   advance it (making him lose epochs) or rewind it (making an epoch payable to him twice). *)
Theorem C06_claim_cursor_moves_only_by_its_owner : forall o ops w,
  o <> EM -> o <> FC -> o <> PM -> o <> FM ->
  Forall (not_signed_by o) ops ->
  lc_get (fm_last_claimed (w_fm (run w ops))) o = lc_get (fm_last_claimed (w_fm w)) o.
Proof. exact cursor_moves_only_by_its_owner. Qed.

(* the hypotheses are met by a real history (kernel-evaluated): alice's cursor is 2; carol stakes and claims (her cursor
   goes from none to 4), bob claims twice and closes his position, two days pass, every transaction accepted: alice's
   cursor is still 2 *)
Theorem C06_cursor_example : cursor_statement.
Proof. exact cursor_example. Qed.

Print Assumptions C06_every_reward_within_budget_and_after_cursor.
Print Assumptions C06_claimed_amount_bounded.
Print Assumptions C06_no_epoch_paid_twice.
Print Assumptions C06_payouts_never_exceed_funding_in_any_reachable_world.
Print Assumptions C06_claim_transaction_pays_exactly_what_rewards_quotes.
Print Assumptions C06_epoch_emission_bound.
Print Assumptions C06_emission_bound_over_epochs.
Print Assumptions C06_no_reward_before_the_first_weight_entry.
Print Assumptions C06_claim_cursor_moves_only_by_its_owner.
Print Assumptions C06_cursor_example.
