(* Findings.v — refutation witnesses: literal statements of given properties that are FALSE of the code (each
   witness is evaluated on the model by vm_compute and replayed on the real contracts by the `findings` harness
   family; the finding is listed in /verif/known_findings.json). Statements only + vm_compute proofs. *)
From MD.Model Require Import Base Ownable Epoch PoolMath Types PoolManager FarmManager.
From MD.Proofs Require Import StableExact.

Definition no_fees : pool_fee := {| protocol_fee := 0; swap_fee := 0; burn_fee := 0; extra_fees := [] |}.
Definition all_on : pool_status := {| swaps_enabled := true; deposits_enabled := true; withdrawals_enabled := true |}.
Definition ss2 (amp r0 r1 d0 d1 : Z) : pool_info :=
  {| p_id := "o.s"; p_denoms := ["a"; "b"]; p_decimals := [d0; d1]; p_assets := [("a", r0); ("b", r1)];
     p_type := StableSwap amp; p_lp := "lp"; p_fees := no_fees; p_status := all_on |}.

(* F-ss-round (C03, C02): on a balanced zero-fee stableswap pool (10^9 / 10^9 units, 6/6 decimals, amp 85) one
   unit in buys one unit out although the marginal price is below 1: the exact invariant strictly decreases
   (D(before) >= 2*10^9 > D(after)) — the output is rounded in the trader's favour *)
Theorem F_ss_round_refuted :
  let p := ss2 85 1000000000 1000000000 6 6 in
  exists sc, compute_swap p ("a", 1) "b" = Ok sc /\ sc_return sc = 1 /\
    Fpoly (85 * 2) [1000000000; 1000000000] 2000000000 <= 0 /\
    0 < Fpoly (85 * 2) [1000000000 + 1; 1000000000 - sc_return sc] 2000000000.
Proof. cbv zeta. eexists. split; [vm_compute; reflexivity|]. repeat split; vm_compute; congruence. Qed.

(* F-ss-D (C19): amp 10000, reserves (46, 3030) * 10^18 (18/18 decimals), offer 186 units: quoted 176; even a payout
   of 176 + 19 would leave the exact invariant above its old value (D(after) >= D0 + 1 > D(before)), so the exact
   output is at least 195: the quote is off by at least 19 units (allowed: 2 units + the value of 2 offered units) *)
Theorem F_ss_D_refuted :
  let x := 46 * 10 ^ 18 in let y := 3030 * 10 ^ 18 in
  let p := ss2 10000 x y 18 18 in let d0 := 3073549741576706555615 in
  exists sc, compute_swap p ("a", 186) "b" = Ok sc /\ sc_return sc = 176 /\
    0 < Fpoly (10000 * 2) [x; y] (d0 + 1) /\
    Fpoly (10000 * 2) [x + 186; y - (sc_return sc + 19)] (d0 + 1) <= 0.
Proof. cbv zeta. eexists. split; [vm_compute; reflexivity|]. repeat split; vm_compute; congruence. Qed.

(* F-d-core (C19): calculate_d_core returns its last iterate after 255 non-converging steps instead of refusing:
   4 assets (10^30, 1, 1, 1), amp 1: returned D = 1.7*10^20 while the exact invariant is below 4*10^12 *)
Theorem F_d_core_refuted :
  compute_d 1 [("a", 10 ^ 30); ("b", 1); ("c", 1); ("d", 1)] = Ok 173827069980542812693 /\
  0 < Fpoly (1 * 4) [10 ^ 30; 1; 1; 1] 4000000000000.
Proof. split; vm_compute; reflexivity. Qed.

(* F-rev18 (C12): constant product, reserves 10^24 / 10^24, total fees 7.6%: ReverseSimulation for 10^22 quotes an
   offer q; offering q + 1 returns 759 units less than asked (1/(1-fees) is truncated to 18 digits) *)
Definition fees76 : pool_fee :=
  {| protocol_fee := 20000000000000000; swap_fee := 30000000000000000; burn_fee := 10000000000000000; extra_fees := [16000000000000000] |}.
Theorem F_rev18_refuted :
  let p := {| p_id := "o.c"; p_denoms := ["a"; "b"]; p_decimals := [18; 18]; p_assets := [("a", 10 ^ 24); ("b", 10 ^ 24)];
              p_type := ConstantProduct; p_lp := "lp"; p_fees := fees76; p_status := all_on |} in
  exists oc sc, compute_offer_amount (10 ^ 24) (10 ^ 24) (10 ^ 22) fees76 = Ok oc /\
    compute_swap p ("a", oc_offer oc + 1) "b" = Ok sc /\ sc_return sc + 759 = 10 ^ 22.
Proof. cbv zeta. eexists. eexists. split; [vm_compute; reflexivity|]. split; vm_compute; reflexivity. Qed.

(* F-ss-tol (C13): on a stableswap pool a deposit in EXACT pool proportion is rejected under a 50% tolerance
   (the check compares D_final/D_initial, which is > 1 for every deposit, with the tolerance) *)
Theorem F_ss_tol_refuted :
  exists e, assert_slippage_tolerance (Some (PCT 50)) [("a", 1000000); ("b", 1000000)]
              [("a", 1000000000); ("b", 1000000000)] (StableSwap 85) = Err e.
Proof. eexists. vm_compute. reflexivity. Qed.

(* F-ss-spread (C13): balanced 6/18-decimals stableswap pool with 10^6 tokens a side; selling 1000 of the
   18-decimals token returns 999.988 of the other (a 0.0012% loss) but the reported slippage is 1.16*10^16 units, so
   the sale is refused at a 1% limit *)
Theorem F_ss_spread_refuted :
  let p := ss2 85 (10 ^ 6 * 10 ^ 6) (10 ^ 6 * 10 ^ 18) 6 18 in
  exists sc, compute_swap p ("b", 1000 * 10 ^ 18) "a" = Ok sc /\
    999988000 <= sc_return sc /\
    (exists e, assert_max_slippage None (Some (PCT 1)) (1000 * 10 ^ 18) (sc_return sc) (sc_slippage sc) = Err e).
Proof. cbv zeta. eexists. split; [vm_compute; reflexivity|]. split; [vm_compute; congruence|]. eexists. vm_compute. reflexivity. Qed.

(* F-clamp (C11, C06, C07): the farms of an LP token are always fetched with a limit clamped to 100, so with
   max_concurrent_farms > 100 the limit test of create_farm can never fail and farms beyond the first 100 are
   invisible to reward calculation *)
Theorem F_clamp_fetch_never_exceeds_100 : forall s lp limit, (List.length (farms_by_lp s lp limit) <= 100)%nat.
Proof.
  intros s lp limit. unfold farms_by_lp, MAX_FARMS_LIMIT.
  assert (G : forall A n (l : list A), (List.length (take n l) <= n)%nat).
  { induction n as [|n IH]; intros l; destruct l; cbn; try lia. specialize (IH l). lia. }
  eapply Nat.le_trans; [apply G|]. lia.
Qed.

Print Assumptions F_ss_round_refuted.
Print Assumptions F_ss_D_refuted.
Print Assumptions F_d_core_refuted.
Print Assumptions F_rev18_refuted.
Print Assumptions F_ss_tol_refuted.
Print Assumptions F_ss_spread_refuted.
Print Assumptions F_clamp_fetch_never_exceeds_100.
