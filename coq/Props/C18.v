(* Property C18 — epochs partition time: derived ids are monotone and consistent.
   Only statements here; proofs live in Proofs/EpochProofs.v. *)
From MD.Model Require Import Base Ownable Epoch.
From MD.Proofs Require Import EpochProofs.

(* queries before genesis fail *)
Theorem C18_before_genesis_fails : forall c b,
  seconds b < genesis c -> exists s, query_current_epoch c b = Err s.
Proof. exact before_genesis_fails. Qed.

(* ... and from genesis onward the current epoch is always defined *)
Theorem C18_defined_from_genesis : forall c b,
  wf_block b -> wf_cfg c -> 0 < duration c -> genesis c <= seconds b ->
  exists e, query_current_epoch c b = Ok e.
Proof. exact defined_from_genesis. Qed.

(* id = floor((now - genesis)/duration); reported start = genesis + id*duration (exact, never wrapped) *)
Theorem C18_current_epoch_id : forall c b e,
  wf_block b -> wf_cfg c -> query_current_epoch c b = Ok e ->
  genesis c <= seconds b /\ duration c <> 0 /\
  ep_id e = (seconds b - genesis c) / duration c /\
  ep_start e = (genesis c + ep_id e * duration c) * NANOS.
Proof. exact current_epoch_spec. Qed.

Theorem C18_monotone_in_time : forall c b1 b2 e1 e2,
  wf_block b1 -> wf_block b2 -> wf_cfg c -> time b1 <= time b2 ->
  query_current_epoch c b1 = Ok e1 -> query_current_epoch c b2 = Ok e2 ->
  ep_id e1 <= ep_id e2.
Proof. exact monotone_in_time. Qed.

Theorem C18_plus_duration_is_succ : forall c b1 b2 e1 e2,
  wf_block b1 -> wf_block b2 -> wf_cfg c ->
  time b2 = time b1 + duration c * NANOS ->
  query_current_epoch c b1 = Ok e1 -> query_current_epoch c b2 = Ok e2 ->
  ep_id e2 = ep_id e1 + 1.
Proof. exact plus_duration_is_succ. Qed.

(* start time of any epoch id: exact value, inside u64, or a clean failure *)
Theorem C18_epoch_start : forall c id e,
  query_epoch c id = Ok e ->
  ep_id e = id /\ ep_start e = (genesis c + id * duration c) * NANOS /\
  0 <= id * duration c <= U64_MAX /\ 0 <= genesis c + id * duration c <= U64_MAX /\
  0 <= ep_start e <= U64_MAX.
Proof. exact query_epoch_spec. Qed.

Theorem C18_epoch_start_fails_only_on_overflow : forall c id s,
  0 <= id -> wf_cfg c -> query_epoch c id = Err s ->
  U64_MAX < (genesis c + id * duration c) * NANOS.
Proof. exact query_epoch_err. Qed.

(* now lies in [start(current), start(current+1)) *)
Theorem C18_now_in_current_interval : forall c b e,
  wf_block b -> wf_cfg c -> query_current_epoch c b = Ok e ->
  ep_start e <= time b < ep_start e + duration c * NANOS.
Proof. exact now_in_current_interval. Qed.

Theorem C18_now_before_next_start : forall c b e e',
  wf_block b -> wf_cfg c -> query_current_epoch c b = Ok e ->
  query_epoch c (ep_id e + 1) = Ok e' ->
  ep_start e <= time b < ep_start e' /\ ep_start e' = ep_start e + duration c * NANOS.
Proof. exact now_before_next_start. Qed.

(* durations below one day / genesis in the past are never accepted, by any history *)
Theorem C18_instantiate_validates : forall av b o c s,
  em_instantiate av b o c = Ok s ->
  em_cfg s = c /\ DAY_IN_SECONDS <= duration c /\ seconds b <= genesis c /\ owner (em_own s) = Some o.
Proof. exact instantiate_validates. Qed.

Theorem C18_update_validates : forall av b sender f m s s',
  em_execute av b sender f m s = Ok s' ->
  em_cfg s' = em_cfg s \/
  (exists c, m = EmUpdateConfig (Some c) /\ em_cfg s' = c /\ DAY_IN_SECONDS <= duration c /\
             seconds b <= genesis c /\ owner (em_own s) = Some sender /\ f = false).
Proof. exact execute_validates. Qed.

Theorem C18_duration_valid_in_every_reachable_state : forall av xs s,
  cfg_ok (em_cfg s) -> cfg_ok (em_cfg (fold_left (em_step av) xs s)).
Proof. exact reachable_cfg_ok. Qed.

(* non-vacuity: a concrete configuration and block meet the hypotheses *)
Example C18_nonvacuous :
  let c := {| duration := 86400; genesis := 1714057200 |} in
  let b := {| height := 1; time := (1714057200 + 3 * 86400 + 5) * NANOS |} in
  wf_block b /\ wf_cfg c /\
  query_current_epoch c b = Ok {| ep_id := 3; ep_start := (1714057200 + 3 * 86400) * NANOS |}.
Proof. unfold wf_block, wf_cfg, U64_MAX; simpl. repeat split; try lia. Qed.

Print Assumptions C18_before_genesis_fails.
Print Assumptions C18_defined_from_genesis.
Print Assumptions C18_current_epoch_id.
Print Assumptions C18_monotone_in_time.
Print Assumptions C18_plus_duration_is_succ.
Print Assumptions C18_epoch_start.
Print Assumptions C18_epoch_start_fails_only_on_overflow.
Print Assumptions C18_now_in_current_interval.
Print Assumptions C18_now_before_next_start.
Print Assumptions C18_instantiate_validates.
Print Assumptions C18_update_validates.
Print Assumptions C18_duration_valid_in_every_reachable_state.
Print Assumptions C18_nonvacuous.
