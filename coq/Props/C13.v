(* Property C13 — price protections are enforced and failed trades change nothing.
   Statements only; proofs in Proofs/SlippageProofs.v, Proofs/ChainProofs.v.
   (The two stableswap defects of the unchanged tree — spread measured in the wrong precision, deposit
   tolerance rejecting every deposit — are refuted with witnesses in Props/C13ss.v.) *)
From MD.Model Require Import Base Ownable Epoch PoolMath Types PoolManager FarmManager Chain.
From MD.Proofs Require Import PoolMathProofs SwapProofs SlippageProofs ChainProofs.

(* the tolerance in force: the caller's max slippage, 1% when omitted, never more than 50% *)
Theorem C13_tolerance_default_and_cap : eff_tol None = PCT 1 /\ forall ms, eff_tol ms <= PCT 50.
Proof. split; [exact eff_tol_default | exact eff_tol_cap]. Qed.

(* no belief price: a swap passes iff slippage/(return+slippage), floored at 18 digits, is within that tolerance;
   [slippage] is the price impact plus all fees measured against the pre-trade pool price (compute_swap) *)
Theorem C13_max_slippage_accept_iff : forall ms offer ret slip,
  0 <= ret -> 0 <= slip ->
  (assert_max_slippage None ms offer ret slip = Ok tt <->
   (0 < ret + slip <= U128_MAX /\ slip * DEC / (ret + slip) <= eff_tol ms /\ slip * DEC / (ret + slip) <= U256_MAX)).
Proof. exact max_slippage_accept_iff. Qed.

(* belief price: passes iff return >= offer/belief, or the shortfall ratio is within the tolerance *)
Theorem C13_belief_price_accept_iff : forall bp ms offer ret slip,
  0 <= offer -> 0 < bp -> 0 <= ret ->
  let expected := offer * (DEC * DEC / bp) / DEC in
  offer * DEC <= U256_MAX -> offer * DEC * (DEC * DEC / bp) / DEC <= U256_MAX ->
  (assert_max_slippage (Some bp) ms offer ret slip = Ok tt <->
   (expected <= ret \/ (ret < expected /\ (expected - ret) * DEC / expected <= eff_tol ms))).
Proof. exact belief_price_accept_iff. Qed.

(* usable on every pool type: a larger tolerance never rejects what a smaller one accepts *)
Theorem C13_tolerance_monotone : forall belief t1 t2 offer ret slip,
  t1 <= t2 ->
  assert_max_slippage belief (Some t1) offer ret slip = Ok tt ->
  assert_max_slippage belief (Some t2) offer ret slip = Ok tt.
Proof. exact max_slippage_monotone. Qed.

(* the check is really applied to every executed swap, with the swap's own computation *)
Theorem C13_swap_checks_slippage : forall s offer ask pid belief ms s' sc,
  perform_swap s offer ask pid belief ms = Ok (s', sc) ->
  exists p, pool_find s pid = Ok p /\ compute_swap p offer ask = Ok sc /\
    assert_max_slippage belief ms (amount_of offer) (sc_return sc) (sc_slippage sc) = Ok tt.
Proof.
  intros s offer ask pid belief ms s' sc H. apply perform_swap_spec in H.
  destruct H as (p & oi & ai & oc & ac & od & ad & Hp & _ & Hsc & Hsl & _). eauto.
Qed.

(* a routed swap delivers at least minimum_receive or fails as a whole *)
Theorem C13_minimum_receive : forall w sender funds ops m receiver ms s' msgs,
  execute_swap_operations w sender funds ops (Some m) receiver ms = Ok (s', msgs) ->
  exists out fee_msgs lst, m <= amount_of out /\ last (map Some ops) None = Some lst /\
    msgs = ((if amount_of out =? 0 then []
             else [plain (MBankSend (addr_or_default w receiver sender) [(so_out lst, amount_of out)])]) ++ fee_msgs)%list.
Proof. exact minimum_receive_enforced. Qed.

(* constant-product deposit with a tolerance: accepted iff both deposit ratios, reduced by the tolerance, are
   within the pool ratios *)
Theorem C13_cp_deposit_tolerance_iff : forall t c0 c1 q0 q1,
  0 <= t <= DEC ->
  0 < amount_of c0 <= U128_MAX -> 0 < amount_of c1 <= U128_MAX ->
  0 < amount_of q0 <= U128_MAX -> 0 < amount_of q1 <= U128_MAX ->
  String.ltb (denom_of q0) (denom_of q1) = true ->
  (exists l, assert_slippage_tolerance (Some t) [c0; c1] [q0; q1] ConstantProduct = Ok l) <->
  cp_tol_ok t (amount_of c0) (amount_of c1) (amount_of q0) (amount_of q1).
Proof. exact cp_deposit_tolerance_iff. Qed.

Theorem C13_cp_deposit_tolerance_monotone : forall t1 t2 d0 d1 p0 p1,
  0 <= d0 -> 0 < d1 -> 0 <= d1 -> 0 < d0 -> t1 <= t2 <= DEC ->
  cp_tol_ok t1 d0 d1 p0 p1 -> cp_tol_ok t2 d0 d1 p0 p1.
Proof. exact cp_tol_monotone. Qed.

Theorem C13_cp_exact_proportion_accepted : forall t d0 d1 p0 p1,
  0 <= t <= DEC -> 0 < d0 -> 0 < d1 -> 0 < p0 -> 0 < p1 ->
  d0 * p1 = d1 * p0 -> cp_tol_ok t d0 d1 p0 p1.
Proof. exact cp_exact_proportion_accepted. Qed.

(* invalid tolerances above 1 are refused *)
Theorem C13_tolerance_above_one_refused : forall t deps pa pt,
  DEC < t -> existsb (fun c => amount_of c =? 0) pa = false ->
  exists e, assert_slippage_tolerance (Some t) deps pa pt = Err e.
Proof. exact deposit_tolerance_gt_one_rejected. Qed.

(* failed trades change nothing: any rejected operation leaves the whole world (all contracts' state, all
   balances) exactly as it was *)
Theorem C13_rejected_changes_nothing : forall w o,
  w_fault w = None -> snd (step w o) = false -> fst (step w o) = w.
Proof. exact step_rejected_identity. Qed.

Example C13_nonvacuous :
  assert_max_slippage None (Some (PCT 1)) 1000 990 10 = Ok tt /\
  (exists e, assert_max_slippage None (Some (PCT 1)) 1000 989 11 = Err e) /\
  cp_tol_ok (PCT 1) 100 200 1000 2000.
Proof.
  split; [vm_compute; reflexivity|]. split; [eexists; vm_compute; reflexivity|].
  apply cp_exact_proportion_accepted; unfold PCT, DEC; lia.
Qed.

Print Assumptions C13_tolerance_default_and_cap.
Print Assumptions C13_max_slippage_accept_iff.
Print Assumptions C13_belief_price_accept_iff.
Print Assumptions C13_tolerance_monotone.
Print Assumptions C13_swap_checks_slippage.
Print Assumptions C13_minimum_receive.
Print Assumptions C13_cp_deposit_tolerance_iff.
Print Assumptions C13_cp_deposit_tolerance_monotone.
Print Assumptions C13_cp_exact_proportion_accepted.
Print Assumptions C13_tolerance_above_one_refused.
Print Assumptions C13_rejected_changes_nothing.
Print Assumptions C13_nonvacuous.
