(* Property C08 — locked LP can only return to its owner, only after unlocking, and in full.
   Statements only; proofs in Proofs/FarmProofs.v, Proofs/FarmChainProofs.v, Proofs/PmProofs.v, Proofs/AuthProofs.v. *)
From MD.Model Require Import Base Ownable Epoch PoolMath Types PoolManager FarmManager Chain.
From MD.Proofs Require Import ChainProofs PmProofs AuthProofs WeightProofs FarmProofs FarmChainProofs BankProofs TxBalances PositionsSafe PositionsExample FarmCustody FarmCustodyChain Redeemable.

(* who may do what with a position *)
Theorem C08_position_roles : forall w sender funds m s' msgs,
  fm_execute w sender funds m = Ok (s', msgs) ->
  match m with
  | FmPosClose id _ => funds = [] /\ exists p, sfind pos_id id (fm_positions (w_fm w)) = Some p /\ pos_recv p = sender
  | FmPosWithdraw id _ => funds = [] /\ exists p, sfind pos_id id (fm_positions (w_fm w)) = Some p /\ pos_recv p = sender
  | FmPosExpand id => exists p, sfind pos_id id (fm_positions (w_fm w)) = Some p /\
                        (pos_recv p = sender \/ sender = fm_pool_manager (fm_cfg (w_fm w)))
  | FmPosCreate _ _ (Some r) => sender = fm_pool_manager (fm_cfg (w_fm w)) \/ sender = r
  | _ => True
  end.
Proof.
  intros w sender funds m s' msgs H. pose proof (fm_privileged_auth _ _ _ _ _ _ H) as A.
  destruct m as [p|p|fid|a|u|oid dur r|pid|pid lp|pid e|u]; try exact I; try exact A.
Qed.

(* ... and the pool manager uses that delegation only for the depositor: whatever it sends to the farm manager
   on behalf of [sender] creates a position FOR [sender] or tops up a position OWNED BY [sender] *)
Theorem C08_pool_manager_locks_only_for_depositor : forall w sender funds ls ss r pid u l s' msgs,
  sender <> PM ->
  provide_liquidity w sender funds ls ss r pid u l = Ok (s', msgs) ->
  Forall (locks_only_for w sender) msgs.
Proof. exact provide_locks_only_for_sender. Qed.

(* normal withdrawal of a closed position: succeeds IF AND ONLY IF sender = owner, no funds, and the unlock
   instant has been reached (boundary second included) *)
Theorem C08_withdraw_iff : forall w sender funds id em p e,
  sfind pos_id id (fm_positions (w_fm w)) = Some p -> pos_open p = false -> pos_exp p = Some e ->
  em <> Some true ->
  ((exists s' msgs, withdraw_position w sender funds id em = Ok (s', msgs)) <->
   (funds = [] /\ pos_recv p = sender /\ e <= seconds (w_block w))).
Proof. exact withdraw_normal_iff. Qed.

(* what a withdrawal does: pays the owner exactly the recorded amount (normal path) and deletes the position *)
Theorem C08_withdraw_effect : forall w sender funds id em s' msgs,
  withdraw_position w sender funds id em = Ok (s', msgs) ->
  funds = [] /\
  exists p, sfind pos_id id (fm_positions (w_fm w)) = Some p /\ pos_recv p = sender /\
    fm_positions s' = sremove pos_id id (fm_positions (w_fm w)) /\
    fm_farms s' = fm_farms (w_fm w) /\ fm_cfg s' = fm_cfg (w_fm w) /\ fm_own s' = fm_own (w_fm w) /\
    fm_pos_counter s' = fm_pos_counter (w_fm w) /\
    let lp := denom_of (pos_lp p) in let amount := amount_of (pos_lp p) in
    let now := seconds (w_block w) in
    ((~ (em = Some true /\ position_is_expired p now = false) /\
      (exists e, pos_exp p = Some e /\ e <= now) /\
      msgs = (if amount =? 0 then [] else [send_to (pos_recv p) lp amount]))
     \/
     (em = Some true /\ position_is_expired p now = false /\
      exists tp owners per collector,
        0 <= tp < amount /\ tp * 10 <= amount * 9 /\
        0 <= per /\ 0 <= collector /\ Z.of_nat (List.length owners) * per + collector <= tp /\
        (owners = [] -> collector = tp) /\
        msgs = (map (fun o => send_to o lp per) owners ++
                (if 0 <? collector then [send_to (fm_fee_collector (fm_cfg (w_fm w))) lp collector] else []) ++
                (if ssub amount tp =? 0 then [] else [send_to (pos_recv p) lp (ssub amount tp)]))%list)).
Proof. exact withdraw_position_spec. Qed.

(* closing: only the owner, only an open position, only with no pending rewards; the unlock instant is the close
   time plus the unlocking duration; a partial close splits the position without creating or losing LP *)
Theorem C08_close_effect : forall w sender funds id olp s' msgs,
  close_position w sender funds id olp = Ok (s', msgs) ->
  funds = [] /\ msgs = [] /\ query_rewards w (w_fm w) sender None = Ok [] /\
  exists p, sfind pos_id id (fm_positions (w_fm w)) = Some p /\ pos_recv p = sender /\ pos_open p = true /\
    fm_farms s' = fm_farms (w_fm w) /\ fm_cfg s' = fm_cfg (w_fm w) /\ fm_own s' = fm_own (w_fm w) /\
    let amount := amount_of (pos_lp p) in
    let exp := (time (w_block w) + pos_dur p * NANOS) / NANOS in
    (((olp = None \/ exists c, olp = Some c /\ denom_of c = denom_of (pos_lp p) /\ amount_of c = amount) /\
      fm_positions s' = sinsert pos_id (pos_with p amount false (Some exp)) (fm_positions (w_fm w)) /\
      fm_pos_counter s' = fm_pos_counter (w_fm w))
     \/
     (exists c, olp = Some c /\ denom_of c = denom_of (pos_lp p) /\ amount_of c < amount /\
        let np := {| pos_id := ("p-" ++ string_of_Z (fm_pos_counter (w_fm w) + 1))%string; pos_lp := c; pos_dur := pos_dur p;
                     pos_open := false; pos_exp := Some exp; pos_recv := pos_recv p |} in
        fm_positions s' = sinsert pos_id (pos_with p (ssub amount (amount_of c)) true (pos_exp p))
                            (sinsert pos_id np (fm_positions (w_fm w))) /\
        fm_pos_counter s' = fm_pos_counter (w_fm w) + 1)).
Proof. exact close_position_spec. Qed.

Theorem C08_unlock_instant_is_close_plus_duration : forall t dur, (t + dur * NANOS) / NANOS = t / NANOS + dur.
Proof. exact expiry_is_close_plus_duration. Qed.

(* deposits into a position: created with exactly the attached LP; topped up by exactly the attached LP *)
Theorem C08_create_effect : forall w sender funds oid dur receiver s' msgs,
  create_position w sender funds oid dur receiver = Ok (s', msgs) ->
  msgs = [] /\
  exists lp recv identifier,
    one_coin funds = Ok lp /\
    fm_min_unlock (fm_cfg (w_fm w)) <= dur <= fm_max_unlock (fm_cfg (w_fm w)) /\
    recv = match receiver with Some r => r | None => sender end /\
    (match receiver with Some r => sender = fm_pool_manager (fm_cfg (w_fm w)) \/ sender = r | None => True end) /\
    identifier = match oid with Some id => ("u-" ++ id)%string | None => ("p-" ++ string_of_Z (fm_pos_counter (w_fm w) + 1))%string end /\
    sfind pos_id identifier (fm_positions (w_fm w)) = None /\
    fm_positions s' = sinsert pos_id {| pos_id := identifier; pos_lp := lp; pos_dur := dur; pos_open := true; pos_exp := None; pos_recv := recv |}
                              (fm_positions (w_fm w)) /\
    fm_farms s' = fm_farms (w_fm w) /\ fm_cfg s' = fm_cfg (w_fm w) /\ fm_own s' = fm_own (w_fm w).
Proof. exact create_position_spec. Qed.

Theorem C08_expand_effect : forall w sender funds id s' msgs,
  expand_position w sender funds id = Ok (s', msgs) ->
  msgs = [] /\
  exists p lp,
    sfind pos_id id (fm_positions (w_fm w)) = Some p /\ one_coin funds = Ok lp /\
    denom_of lp = denom_of (pos_lp p) /\ pos_open p = true /\
    (pos_recv p = sender \/ sender = fm_pool_manager (fm_cfg (w_fm w))) /\
    fm_positions s' = sinsert pos_id (pos_with p (amount_of (pos_lp p) + amount_of lp) (pos_open p) (pos_exp p)) (fm_positions (w_fm w)) /\
    fm_farms s' = fm_farms (w_fm w) /\ fm_cfg s' = fm_cfg (w_fm w) /\ fm_own s' = fm_own (w_fm w) /\
    fm_pos_counter s' = fm_pos_counter (w_fm w).
Proof. exact expand_position_spec. Qed.

(* frame: no farm-manager message from anybody else (other than the pool manager, which can only add) changes
   or removes a position — including the split-off positions generated by other users' partial closes *)
Theorem C08_others_cannot_touch_a_position : forall w sender funds m s' msgs,
  pos_fresh (w_fm w) ->
  fm_execute w sender funds m = Ok (s', msgs) ->
  forall id q, sfind pos_id id (fm_positions (w_fm w)) = Some q ->
    pos_recv q <> sender -> sender <> fm_pool_manager (fm_cfg (w_fm w)) ->
    sfind pos_id id (fm_positions s') = Some q.
Proof. exact fm_execute_positions_frame. Qed.

(* the freshness of generated identifiers ("p-<n>" above the counter unused; "u-" ids never collide with them)
   holds in every reachable world *)
Theorem C08_generated_identifiers_never_collide : forall ops w,
  pos_fresh (w_fm w) -> pos_fresh (w_fm (run w ops)).
Proof. exact run_pos_fresh. Qed.

Example C08_genesis_fresh : forall c, pos_fresh (empty_fm c).
Proof. intros c. split; [cbn; lia | intros k Hk; reflexivity]. Qed.

(* THE WHOLE TRANSACTION, every bank balance: a regular withdrawal moves exactly the recorded LP amount from the farm
   manager to the owner (= the sender) and changes no other balance *)
Theorem C08_withdrawal_transaction_moves_exactly_these_balances : forall w sender funds id em w',
  em <> Some true ->
  run_tx w sender FM (WFm (FmPosWithdraw id em)) funds = Ok w' ->
  exists p, sfind pos_id id (fm_positions (w_fm w)) = Some p /\ pos_recv p = sender /\ funds = [] /\
    forall a d,
      bal (w_bank w') a d = bal (w_bank w) a d
        - ind (String.eqb a FM) (ind (String.eqb (denom_of (pos_lp p)) d) (amount_of (pos_lp p)))
        + ind (String.eqb a sender) (ind (String.eqb (denom_of (pos_lp p)) d) (amount_of (pos_lp p))).
Proof. exact position_withdraw_tx_balances. Qed.

(* OVER HISTORIES. Whatever OTHER people do: through any history of operations none of which is signed by the owner o
   (a user address, not one of the four contracts) — with every call between the contracts (the pool manager locking LP
   for depositors included), replies, rejected operations and injected faults — every position of o survives with the
   same identifier, owner, LP denom, unlocking duration, open/closed state and unlock instant, and with AT LEAST its
   recorded amount (others can only add, through the pool manager, to an OPEN position); a closed position does not
   change at all. "The recorded amount of a position changes only by its owner's deposits, closes and withdrawals". *)
Theorem C08_positions_survive_other_peoples_histories : forall o ops w,
  o <> EM -> o <> FC -> o <> PM -> o <> FM ->
  Forall (not_signed_by o) ops ->
  pos_fresh (w_fm w) ->
  forall id q, sfind pos_id id (fm_positions (w_fm w)) = Some q -> pos_recv q = o ->
    exists q', sfind pos_id id (fm_positions (w_fm (run w ops))) = Some q' /\
      pos_id q' = pos_id q /\ pos_recv q' = pos_recv q /\ denom_of (pos_lp q') = denom_of (pos_lp q) /\
      pos_dur q' = pos_dur q /\ pos_open q' = pos_open q /\ pos_exp q' = pos_exp q /\
      amount_of (pos_lp q) <= amount_of (pos_lp q') /\
      (pos_open q = false -> q' = q).
Proof. exact others_histories_keep_positions. Qed.

(* ... stated from genesis (the freshness of generated identifiers holds in every reachable world) *)
Theorem C08_positions_survive_in_every_reachable_world : forall g w0 pre o ops,
  genesis_world g = Ok w0 -> 0 <= amount_of (fm_create_fee (g_fm g)) ->
  o <> EM -> o <> FC -> o <> PM -> o <> FM ->
  Forall (not_signed_by o) ops ->
  forall id q, sfind pos_id id (fm_positions (w_fm (run w0 pre))) = Some q -> pos_recv q = o ->
    exists q', sfind pos_id id (fm_positions (w_fm (run (run w0 pre) ops))) = Some q' /\ pos_kept q q'.
Proof. exact reachable_positions_safe. Qed.

(* ... hence a CLOSED position is still there, exactly as it was, and its owner can withdraw it in full from the unlock
   instant on — however long the others' history and whatever they did *)
Theorem C08_closed_position_still_withdrawable_after_any_history_of_others : forall o ops w id q e,
  o <> EM -> o <> FC -> o <> PM -> o <> FM ->
  Forall (not_signed_by o) ops ->
  pos_fresh (w_fm w) ->
  sfind pos_id id (fm_positions (w_fm w)) = Some q -> pos_recv q = o ->
  pos_open q = false -> pos_exp q = Some e ->
  sfind pos_id id (fm_positions (w_fm (run w ops))) = Some q /\
  ((exists s' msgs, withdraw_position (run w ops) o [] id None = Ok (s', msgs)) <->
   e <= seconds (w_block (run w ops))).
Proof. exact closed_position_still_withdrawable. Qed.

(* the hypotheses are met by a real history (kernel-evaluated): alice's closed position "u-p" (500000 LP) sits through
   bob's and carol's operations — attempts to lock into it through the pool manager, to withdraw / emergency-withdraw /
   close / expand it, to create a position on her behalf, a colliding identifier (all rejected), their own accepted
   positions and locked deposit, days passing, a claim — and she then withdraws exactly 500000 LP *)
Theorem C08_positions_example : positions_statement.
Proof. exact positions_example. Qed.

(* "HENCE every position can be withdrawn in full ... at any time": in every world where the custody invariant holds
   (every reachable world, C05_custody_in_every_reachable_world) and no fault is being injected, the WITHDRAWAL TRANSACTION of a closed
   position whose unlock instant has been reached, sent by its owner, SUCCEEDS - the handler accepts it (C08_withdraw_iff)
   and the farm manager's bank balance covers the transfer of the whole recorded amount (C05); what it moves is
   C08_withdrawal_transaction_moves_exactly_these_balances. (Side conditions of a real bank: the owner is not the farm
   manager itself, his balance is not negative and stays within u128.) *)
Theorem C08_closed_position_withdrawal_transaction_succeeds : forall g w0 ops o id q e,
  genesis_world g = Ok w0 -> 0 <= amount_of (fm_create_fee (g_fm g)) -> Forall op_ok ops ->
  let w := run w0 ops in
  w_fault w = None ->
  sfind pos_id id (fm_positions (w_fm w)) = Some q -> pos_recv q = o -> pos_open q = false -> pos_exp q = Some e ->
  e <= seconds (w_block w) ->
  o <> FM ->
  0 <= bal (w_bank w) o (denom_of (pos_lp q)) ->
  bal (w_bank w) o (denom_of (pos_lp q)) + amount_of (pos_lp q) <= U128_MAX ->
  exists w', run_tx w o FM (WFm (FmPosWithdraw id None)) [] = Ok w'.
Proof. exact reachable_closed_position_withdrawable. Qed.

(* ... on a real history (kernel-evaluated): after everything bob and carol did, alice's withdrawal transaction is
   accepted and moves exactly 500000 LP from the farm manager to her *)
Theorem C08_redeem_example : redeem_statement.
Proof. exact redeem_example. Qed.

Print Assumptions C08_position_roles.
Print Assumptions C08_pool_manager_locks_only_for_depositor.
Print Assumptions C08_withdraw_iff.
Print Assumptions C08_withdraw_effect.
Print Assumptions C08_close_effect.
Print Assumptions C08_unlock_instant_is_close_plus_duration.
Print Assumptions C08_create_effect.
Print Assumptions C08_expand_effect.
Print Assumptions C08_others_cannot_touch_a_position.
Print Assumptions C08_generated_identifiers_never_collide.
Print Assumptions C08_genesis_fresh.
Print Assumptions C08_withdrawal_transaction_moves_exactly_these_balances.
Print Assumptions C08_positions_survive_other_peoples_histories.
Print Assumptions C08_positions_survive_in_every_reachable_world.
Print Assumptions C08_closed_position_still_withdrawable_after_any_history_of_others.
Print Assumptions C08_positions_example.
Print Assumptions C08_closed_position_withdrawal_transaction_succeeds.
Print Assumptions C08_redeem_example.
