(* Property C12 — swap quotes equal execution. Statements only; proofs in Proofs/SwapProofs.v, Proofs/ReverseProofs.v. *)
From MD.Model Require Import Base Ownable Epoch PoolMath Types PoolManager FarmManager Chain.
From MD.Proofs Require Import PoolMathProofs BankProofs SwapProofs ChainProofs TxBalances ReverseQuote.

(* In any state: if a Swap executes, the Simulation query in that state returns exactly the computation the
   swap used: same return amount and the same four fee amounts ... *)
Theorem C12_simulation_eq_swap : forall w sender funds ask belief ms receiver pid s' msgs sc',
  swap w sender funds ask belief ms receiver pid = Ok (s', msgs) ->
  (exists offer, one_coin funds = Ok offer /\ query_simulation (w_pm w) offer ask pid = Ok sc') ->
  msgs = ((if sc_return sc' =? 0 then [] else [plain (MBankSend (addr_or_default w receiver sender) [(ask, sc_return sc')])]) ++
          swap_fee_msgs (pm_cfg (w_pm w)) ask sc')%list.
Proof. exact simulation_eq_swap_msgs. Qed.

(* ... and SimulateSwapOperations returns exactly the final amount ExecuteSwapOperations sends, on routes that
   visit each pool at most once (pools may share denoms) *)
Theorem C12_simulate_operations_eq_execute : forall w sender funds ops mr receiver ms s' msgs,
  NoDup (map so_pool ops) ->
  execute_swap_operations w sender funds ops mr receiver ms = Ok (s', msgs) ->
  exists fst_op amount out fee_msgs lst,
    hd_error ops = Some fst_op /\ must_pay funds (so_in fst_op) = Ok amount /\
    last (map Some ops) None = Some lst /\
    simulate_swap_operations (w_pm w) amount ops = Ok (amount_of out) /\
    msgs = ((if amount_of out =? 0 then []
             else [plain (MBankSend (addr_or_default w receiver sender) [(so_out lst, amount_of out)])]) ++ fee_msgs)%list.
Proof. exact simulate_swap_operations_eq_execute. Qed.

(* AT TRANSACTION LEVEL (funds transfer, handler, every message it emits): the Simulation on the state before a swap
   transaction quotes exactly what the receiver's balance gains, what the fee collector gains and what leaves the pool
   manager; no other balance changes *)
Theorem C12_quote_is_what_the_swap_transaction_pays : forall w sender funds ask bp ms r pid w',
  run_tx w sender PM (WPm (PmSwap ask bp ms r pid)) funds = Ok w' ->
  exists offer sc,
    one_coin funds = Ok offer /\ query_simulation (w_pm w) offer ask pid = Ok sc /\
    let recv := addr_or_default w r sender in
    let fc := pm_fee_collector (pm_cfg (w_pm w)) in
    forall a d,
      bal (w_bank w') a d = bal (w_bank w) a d
        - ind (String.eqb a sender) (camt funds d) + ind (String.eqb a PM) (camt funds d)
        - ind (String.eqb a PM) (ind (String.eqb ask d) (sc_return sc + sc_protocol_fee sc + sc_burn_fee sc))
        + ind (String.eqb a recv) (ind (String.eqb ask d) (sc_return sc))
        + ind (String.eqb a fc) (ind (String.eqb ask d) (sc_protocol_fee sc)).
Proof. exact swap_tx_balances. Qed.

(* ... and SimulateSwapOperations on the state before a route transaction (each pool visited at most once) quotes exactly
   what the receiver is sent in the route's final denom; besides that only the hops' protocol-fee transfers and burns
   (fee_msgs, all bank messages of the pool manager) take effect *)
Theorem C12_route_quote_is_what_the_route_transaction_pays : forall w sender funds ops mr r ms w',
  NoDup (map so_pool ops) ->
  run_tx w sender PM (WPm (PmRoute ops mr r ms)) funds = Ok w' ->
  exists fst_op lst amount out fee_msgs,
    hd_error ops = Some fst_op /\ last (map Some ops) None = Some lst /\ must_pay funds (so_in fst_op) = Ok amount /\
    simulate_swap_operations (w_pm w) amount ops = Ok out /\ (forall m, mr = Some m -> m <= out) /\
    forallb plain_leaf fee_msgs = true /\
    forall a d,
      bal (w_bank w') a d = bal (w_bank w) a d
        - ind (String.eqb a sender) (camt funds d) + ind (String.eqb a PM) (camt funds d)
        - ind (String.eqb a PM) (ind (String.eqb (so_out lst) d) out)
        + ind (String.eqb a (addr_or_default w r sender)) (ind (String.eqb (so_out lst) d) out)
        + leaves_eff PM (w_tf_fee w) fee_msgs a d.
Proof. exact route_tx_balances. Qed.

(* REVERSE QUOTES on constant-product pools: for requested amounts up to 10^18 units, whatever the reserves X (offer side),
   Y (ask side) and the fee setting, offering ONE UNIT MORE than ReverseSimulation quotes yields at least the requested amount
   net of all fees (gross = floor(Y o / (X + o)), fees floored one by one - exactly what compute_swap does). Above 10^18 the
   18-digit truncation of 1/(1 - fees) makes the quote fall short by more than a unit: finding F-rev18 (e.g. 10^24 requested
   on 10^30 / 10^30 reserves returns 444344 units too little). *)
Theorem C12_reverse_quote_plus_one_suffices_up_to_1e18 : forall X Y a f oc ra fc slip sc,
  0 <= X -> 0 <= Y -> 0 <= a <= DEC ->
  compute_offer_amount X Y a f = Ok oc ->
  let o := oc_offer oc + 1 in
  dec_from_ratio U256_MAX (Y * o) (X + o) = Ok ra ->
  compute_fees f (dec_floor ra) = Ok fc ->
  get_swap_computation (dec_floor ra) slip fc = Ok sc ->
  a <= sc_return sc.
Proof. exact reverse_quote_plus_one_suffices. Qed.

Print Assumptions C12_simulation_eq_swap.
Print Assumptions C12_simulate_operations_eq_execute.
Print Assumptions C12_quote_is_what_the_swap_transaction_pays.
Print Assumptions C12_route_quote_is_what_the_route_transaction_pays.
Print Assumptions C12_reverse_quote_plus_one_suffices_up_to_1e18.
