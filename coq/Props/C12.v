(* Property C12 — swap quotes equal execution. Statements only; proofs in Proofs/SwapProofs.v, Proofs/ReverseProofs.v. *)
From MD.Model Require Import Base Ownable Epoch PoolMath Types PoolManager.
From MD.Proofs Require Import PoolMathProofs SwapProofs.

(* In any state: if a Swap executes, the Simulation query in that state returns exactly the computation the
   swap used: same return amount and the same four fee amounts ... *)
Theorem C12_simulation_eq_swap : forall w sender funds ask belief ms receiver pid s' msgs sc',
  swap w sender funds ask belief ms receiver pid = Ok (s', msgs) ->
  (exists offer, one_coin funds = Ok offer /\ query_simulation (w_pm w) offer ask pid = Ok sc') ->
  msgs = ((if sc_return sc' =? 0 then [] else [plain (MBankSend (addr_or_default w receiver sender) [(ask, sc_return sc')])]) ++
          swap_fee_msgs (pm_cfg (w_pm w)) ask sc')%list.
Proof. exact simulation_eq_swap_msgs. Qed.

(* ... and SimulateSwapOperations returns exactly the final amount ExecuteSwapOperations sends, on routes that
   visit each pool at most once (pools may share denoms) *)
Theorem C12_simulate_operations_eq_execute : forall w sender funds ops mr receiver ms s' msgs,
  NoDup (map so_pool ops) ->
  execute_swap_operations w sender funds ops mr receiver ms = Ok (s', msgs) ->
  exists fst_op amount out fee_msgs lst,
    hd_error ops = Some fst_op /\ must_pay funds (so_in fst_op) = Ok amount /\
    last (map Some ops) None = Some lst /\
    simulate_swap_operations (w_pm w) amount ops = Ok (amount_of out) /\
    msgs = ((if amount_of out =? 0 then []
             else [plain (MBankSend (addr_or_default w receiver sender) [(so_out lst, amount_of out)])]) ++ fee_msgs)%list.
Proof. exact simulate_swap_operations_eq_execute. Qed.

Print Assumptions C12_simulation_eq_swap.
Print Assumptions C12_simulate_operations_eq_execute.
