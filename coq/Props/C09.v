(* Property C09 — emergency exit penalty is bounded, decays to zero and is fully accounted for.
   Statements only; proofs in Proofs/WeightProofs.v and Proofs/FarmProofs.v. *)
From MD.Model Require Import Base Ownable Epoch PoolMath Types PoolManager FarmManager Chain.
From MD.Proofs Require Import BankProofs WeightProofs FarmProofs TxBalances.

(* the penalty rate: min(base x remaining-lock fraction x weight multiplier, 90%), every factor an 18-digit
   fixed-point number, every product floored *)
Theorem C09_penalty_formula : forall p base now pen,
  calculate_emergency_penalty p base now = Ok pen ->
  exists wgt,
    0 < pos_dur p /\ calculate_weight (amount_of (pos_lp p)) (pos_dur p) = Ok wgt /\ amount_of (pos_lp p) <> 0 /\
    pen = Z.min (base * (remaining_lock p now * DEC / pos_dur p) / DEC * (wgt * DEC / amount_of (pos_lp p)) / DEC) MAX_PENALTY_CAP.
Proof. exact penalty_spec. Qed.

Theorem C09_penalty_never_above_cap : forall p base now pen,
  calculate_emergency_penalty p base now = Ok pen -> pen <= PCT 90.
Proof. exact penalty_le_cap. Qed.

Theorem C09_penalty_never_increases_with_time : forall p base t1 t2 pen1 pen2,
  0 <= base -> 0 < amount_of (pos_lp p) -> t1 <= t2 ->
  calculate_emergency_penalty p base t1 = Ok pen1 -> calculate_emergency_penalty p base t2 = Ok pen2 ->
  pen2 <= pen1.
Proof. exact penalty_antitone_in_time. Qed.

Theorem C09_penalty_zero_once_unlocked : forall p base now pen e,
  pos_exp p = Some e -> e <= now -> calculate_emergency_penalty p base now = Ok pen -> pen = 0.
Proof. exact penalty_zero_when_unlocked. Qed.

(* the whole withdrawal, both paths. Normal path (also taken by an "emergency" request once the position has
   unlocked): the owner gets exactly the recorded amount. Emergency path: the penalty tp is < amount and at most
   90% of it; the owner gets amount - tp; the active farm owners get [per] each and the fee collector
   [collector], with n*per + collector <= tp (all of it to the collector when there is no active farm owner);
   so the payouts never exceed the recorded amount. The position is deleted in both cases. *)
Theorem C09_withdrawal_accounting : forall w sender funds id em s' msgs,
  withdraw_position w sender funds id em = Ok (s', msgs) ->
  funds = [] /\
  exists p, sfind pos_id id (fm_positions (w_fm w)) = Some p /\ pos_recv p = sender /\
    fm_positions s' = sremove pos_id id (fm_positions (w_fm w)) /\
    fm_farms s' = fm_farms (w_fm w) /\ fm_cfg s' = fm_cfg (w_fm w) /\ fm_own s' = fm_own (w_fm w) /\
    fm_pos_counter s' = fm_pos_counter (w_fm w) /\
    let lp := denom_of (pos_lp p) in let amount := amount_of (pos_lp p) in
    let now := seconds (w_block w) in
    ((~ (em = Some true /\ position_is_expired p now = false) /\
      (exists e, pos_exp p = Some e /\ e <= now) /\
      msgs = (if amount =? 0 then [] else [send_to (pos_recv p) lp amount]))
     \/
     (em = Some true /\ position_is_expired p now = false /\
      exists tp owners per collector,
        0 <= tp < amount /\ tp * 10 <= amount * 9 /\
        0 <= per /\ 0 <= collector /\ Z.of_nat (List.length owners) * per + collector <= tp /\
        (owners = [] -> collector = tp) /\
        msgs = (map (fun o => send_to o lp per) owners ++
                (if 0 <? collector then [send_to (fm_fee_collector (fm_cfg (w_fm w))) lp collector] else []) ++
                (if ssub amount tp =? 0 then [] else [send_to (pos_recv p) lp (ssub amount tp)]))%list)).
Proof. exact withdraw_position_spec. Qed.

(* non-vacuity: a concrete closed position half-way through its lock *)
Example C09_nonvacuous :
  calculate_emergency_penalty
    {| pos_id := "p-1"; pos_lp := ("lp", 1000); pos_dur := 86400; pos_open := false; pos_exp := Some 100000; pos_recv := "a" |}
    (PCT 10) (100000 - 43200) = Ok (PCT 5).
Proof. vm_compute. reflexivity. Qed.

(* THE WHOLE TRANSACTION, every bank balance: an emergency withdrawal either finds the position already unlocked and
   returns the whole recorded amount to its owner, or makes exactly these transfers out of the farm manager, all in the
   position's LP denom: [per] to each owner of a currently active farm, [collector] to the fee collector (all of the
   penalty when there is no such owner), the rest to the position's owner; penalty < amount and <= 90% of it;
   nobody else's balance changes *)
Theorem C09_emergency_withdrawal_transaction_moves_exactly_these_balances : forall w sender funds id w',
  run_tx w sender FM (WFm (FmPosWithdraw id (Some true))) funds = Ok w' ->
  exists p, sfind pos_id id (fm_positions (w_fm w)) = Some p /\ pos_recv p = sender /\ funds = [] /\
    let lp := denom_of (pos_lp p) in let amount := amount_of (pos_lp p) in
    ((exists e, pos_exp p = Some e /\ e <= seconds (w_block w)) /\
     forall a d, bal (w_bank w') a d = bal (w_bank w) a d
                 + leaves_eff FM (w_tf_fee w) (if amount =? 0 then [] else [send_to sender lp amount]) a d)
    \/
    (position_is_expired p (seconds (w_block w)) = false /\
     exists tp owners per collector,
      0 <= tp < amount /\ tp * 10 <= amount * 9 /\ 0 <= per /\ 0 <= collector /\
      Z.of_nat (List.length owners) * per + collector <= tp /\ (owners = [] -> collector = tp) /\
      forall a d,
        bal (w_bank w') a d = bal (w_bank w) a d
          + leaves_eff FM (w_tf_fee w)
              (map (fun o => send_to o lp per) owners ++
               (if 0 <? collector then [send_to (fm_fee_collector (fm_cfg (w_fm w))) lp collector] else []) ++
               (if ssub amount tp =? 0 then [] else [send_to sender lp (ssub amount tp)])) a d).
Proof. exact emergency_withdraw_tx_balances. Qed.

Print Assumptions C09_penalty_formula.
Print Assumptions C09_penalty_never_above_cap.
Print Assumptions C09_penalty_never_increases_with_time.
Print Assumptions C09_penalty_zero_once_unlocked.
Print Assumptions C09_withdrawal_accounting.
Print Assumptions C09_nonvacuous.
Print Assumptions C09_emergency_withdrawal_transaction_moves_exactly_these_balances.
