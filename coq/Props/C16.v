(* Property C16 — pool creation charges exact fees; pool parameters are unique and immutable.
   Statements only; proofs in Proofs/PmProofs.v and Proofs/PmChainProofs.v. *)
From MD.Model Require Import Base Ownable Epoch PoolMath Types PoolManager FarmManager Chain.
From MD.Proofs Require Import SwapProofs ChainProofs PmProofs PmChainProofs BankProofs TxBalances CreateExcess.

(* what a successful CreatePool has checked, and the only messages it emits: the creation fee to the fee
   collector (when non-zero) and the LP denom creation (which consumes the token-factory fee) — nothing is kept *)
Theorem C16_create_pool_checks : forall w funds denoms decimals fees pt oid s' msgs,
  create_pool w funds denoms decimals fees pt oid = Ok (s', msgs) ->
  let n := Z.of_nat (List.length denoms) in
  2 <= n <= 4 /\ n = Z.of_nat (List.length decimals) /\
  match pt with ConstantProduct => n = 2 | StableSwap amp => amp <> 0 end /\
  has_dup denoms = false /\
  Forall (fun s => s < PCT 100) (all_fees fees) /\ sumZ (all_fees fees) <= PCT 20 /\
  (exists total_fees,
     validate_fees_are_paid (pm_creation_fee (pm_cfg (w_pm w))) (w_tf_fee w) funds = Ok total_fees /\
     validate_no_additional_funds funds total_fees = Ok tt) /\
  (exists p, sfind p_id (p_id p) (pm_pools s') = Some p /\ validate_pool_identifier (p_id p) = Ok tt /\
             sfind p_id (p_id p) (pm_pools (w_pm w)) = None) /\
  msgs = ((if amount_of (pm_creation_fee (pm_cfg (w_pm w))) =? 0 then []
           else [plain (MBankSend (pm_fee_collector (pm_cfg (w_pm w))) [pm_creation_fee (pm_cfg (w_pm w))])]) ++
          [plain (MTfCreateDenom (match oid with
                                  | Some id => "o." ++ id
                                  | None => "p." ++ string_of_Z (pm_counter (w_pm w) + 1) end ++ ".LP")%string)])%list.
Proof. exact create_pool_checks. Qed.

(* the new pool: parameters as given, empty reserves, everything enabled, identifier "o."<id> or "p."<counter+1>,
   LP denom derived from the identifier; stored under a previously unused identifier *)
Theorem C16_new_pool : forall w funds denoms decimals fees pt oid s' msgs,
  create_pool w funds denoms decimals fees pt oid = Ok (s', msgs) ->
  exists p,
    sfind p_id (p_id p) (pm_pools (w_pm w)) = None /\
    pm_pools s' = sinsert p_id p (pm_pools (w_pm w)) /\
    pm_cfg s' = pm_cfg (w_pm w) /\ pm_own s' = pm_own (w_pm w) /\ pm_buffer s' = pm_buffer (w_pm w) /\
    p_denoms p = denoms /\ p_decimals p = decimals /\ p_fees p = fees /\ p_type p = pt /\
    p_assets p = map (fun d => (d, 0)) denoms /\
    p_status p = {| swaps_enabled := true; deposits_enabled := true; withdrawals_enabled := true |} /\
    p_lp p = ("factory/" ++ PM ++ "/" ++ p_id p ++ ".LP")%string /\
    (match oid with
     | Some id => p_id p = ("o." ++ id)%string /\ pm_counter s' = pm_counter (w_pm w)
     | None => p_id p = ("p." ++ string_of_Z (pm_counter (w_pm w) + 1))%string /\ pm_counter s' = pm_counter (w_pm w) + 1
     end).
Proof. exact create_pool_shape. Qed.

(* immutability, over ALL histories (any operations by anybody, rejected ones and injected faults included):
   every pool that exists keeps existing with the same identifier, asset denoms, decimals, type, LP denom, fees *)
Theorem C16_parameters_immutable_and_pools_never_removed : forall ops w id p,
  sfind p_id id (pm_pools (w_pm w)) = Some p ->
  exists p', sfind p_id id (pm_pools (w_pm (run w ops))) = Some p' /\
    p_id p' = p_id p /\ p_denoms p' = p_denoms p /\ p_decimals p' = p_decimals p /\ p_type p' = p_type p /\
    p_lp p' = p_lp p /\ p_fees p' = p_fees p.
Proof. exact run_pools_preserved. Qed.

(* every pool's LP denom is the injective image of its identifier, in every reachable world ... *)
Theorem C16_lp_denom_is_function_of_identifier : forall ops w,
  lp_inv (w_pm w) -> lp_inv (w_pm (run w ops)).
Proof. exact run_lp_inv. Qed.

(* ... hence identifiers and LP denoms are unique across pools *)
Theorem C16_identifiers_and_lp_denoms_unique : forall s id1 id2 p1 p2,
  lp_inv s -> sfind p_id id1 (pm_pools s) = Some p1 -> sfind p_id id2 (pm_pools s) = Some p2 ->
  p_lp p1 = p_lp p2 -> id1 = id2 /\ p1 = p2.
Proof. exact lp_denoms_unique. Qed.

Theorem C16_lp_denom_injective : forall a b, lp_of_id a = lp_of_id b -> a = b.
Proof. exact lp_of_id_inj. Qed.

(* non-vacuity: the empty pool table satisfies the invariant (genesis) *)
Example C16_genesis_lp_inv : lp_inv empty_pm.
Proof. intros id p H. discriminate. Qed.

(* THE WHOLE TRANSACTION, every bank balance: creating a pool moves the attached funds to the pool manager, out of which
   exactly the configured creation fee goes to the fee collector and exactly the token-factory fee is destroyed *)
Theorem C16_creation_transaction_moves_exactly_these_balances : forall w sender funds denoms decimals fees pt oid w',
  run_tx w sender PM (WPm (PmCreatePool denoms decimals fees pt oid)) funds = Ok w' ->
  let fee := pm_creation_fee (pm_cfg (w_pm w)) in
  let fc := pm_fee_collector (pm_cfg (w_pm w)) in
  forall a d,
    bal (w_bank w') a d = bal (w_bank w) a d
      - ind (String.eqb a sender) (camt funds d) + ind (String.eqb a PM) (camt funds d)
      - ind (String.eqb a PM) (camt [fee] d) + ind (String.eqb a fc) (camt [fee] d)
      - ind (String.eqb a PM) (camt (w_tf_fee w) d).
Proof. exact create_pool_tx_balances. Qed.

(* "charges exact fees": the two validations of CreatePool together force the attached funds to be, denom by denom, exactly
   the pool creation fee plus the token-factory fee - nothing less, nothing more, no other denom *)
Theorem C16_creation_funds_are_exactly_the_fees : forall fee tf funds total,
  validate_fees_are_paid fee tf funds = Ok total ->
  validate_no_additional_funds funds total = Ok tt ->
  (forall c, In c funds -> 0 <= amount_of c) -> (forall d, camt funds d <= U128_MAX) ->
  NoDup (map denom_of tf) -> (forall f, In f tf -> 0 <= amount_of f) -> 0 <= amount_of fee ->
  (forall f, In f tf -> amount_of f + amount_of fee <= U128_MAX) ->
  forall d, camt funds d = camt [fee] d + camt tf d.
Proof. exact fees_paid_exact. Qed.

Print Assumptions C16_create_pool_checks.
Print Assumptions C16_new_pool.
Print Assumptions C16_parameters_immutable_and_pools_never_removed.
Print Assumptions C16_lp_denom_is_function_of_identifier.
Print Assumptions C16_identifiers_and_lp_denoms_unique.
Print Assumptions C16_lp_denom_injective.
Print Assumptions C16_genesis_lp_inv.
Print Assumptions C16_creation_transaction_moves_exactly_these_balances.
Print Assumptions C16_creation_funds_are_exactly_the_fees.
