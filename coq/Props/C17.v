(* Property C17 — per-pool feature switches stop exactly the switched operation on every path.
   Statements only; proofs in Proofs/ToggleProofs.v. All theorems are about whole transactions on the chain
   model (funds transfer, handler, sub-messages, replies), from an arbitrary world, for arbitrary senders. *)
From MD.Model Require Import Base Ownable Epoch PoolMath Types PoolManager FarmManager Chain.
From MD.Proofs Require Import SwapProofs ChainProofs PmProofs ToggleProofs FrameProofs FarmCustody FrameChain PositionsSafe OwnersOnly SwitchesSafe PositionsExample.

Theorem C17_swaps_disabled_blocks_direct_swap : forall w sender funds ask bp ms r pid p,
  pool_find (w_pm w) pid = Ok p -> swaps_enabled (p_status p) = false ->
  snd (step w (Tx sender PM (WPm (PmSwap ask bp ms r pid)) funds)) = false.
Proof. exact tx_swap_disabled. Qed.

Theorem C17_swaps_disabled_blocks_any_route_through_pool : forall w sender funds ops mr r ms o p,
  In o ops -> pool_find (w_pm w) (so_pool o) = Ok p -> swaps_enabled (p_status p) = false ->
  snd (step w (Tx sender PM (WPm (PmRoute ops mr r ms)) funds)) = false.
Proof. exact tx_route_disabled. Qed.

Theorem C17_swaps_disabled_blocks_single_asset_deposit : forall w sender funds ls ss r pid u l p deposit,
  aggregate_coins funds = Ok [deposit] ->
  pool_find (w_pm w) pid = Ok p -> swaps_enabled (p_status p) = false ->
  snd (step w (Tx sender PM (WPm (PmProvide ls ss r pid u l)) funds)) = false.
Proof. exact tx_single_sided_swap_disabled. Qed.

Theorem C17_deposits_disabled_blocks_every_deposit : forall w sender funds ls ss r pid u l p,
  pool_find (w_pm w) pid = Ok p -> deposits_enabled (p_status p) = false ->
  snd (step w (Tx sender PM (WPm (PmProvide ls ss r pid u l)) funds)) = false.
Proof. exact tx_provide_disabled. Qed.

Theorem C17_withdrawals_disabled_blocks_withdrawal : forall w sender funds pid p,
  pool_find (w_pm w) pid = Ok p -> withdrawals_enabled (p_status p) = false ->
  snd (step w (Tx sender PM (WPm (PmWithdraw pid)) funds)) = false.
Proof. exact tx_withdraw_disabled. Qed.

(* a rejected transaction leaves the whole world unchanged (so "blocked" means "no effect") *)
Theorem C17_blocked_means_no_effect : forall w o,
  w_fault w = None -> snd (step w o) = false -> fst (step w o) = w.
Proof. exact step_rejected_identity. Qed.

(* exactly the switched operation: a toggle changes only the status flags named in the message, only on the
   named pool; reserves and parameters of every pool are untouched; re-enabling writes the flag back *)
Theorem C17_toggle_changes_only_the_named_flags : forall w sender fc fm fee t s' msgs,
  pm_update_config w sender fc fm fee (Some t) = Ok (s', msgs) ->
  forall id q, sfind p_id id (pm_pools (w_pm w)) = Some q ->
    exists q', sfind p_id id (pm_pools s') = Some q' /\ p_assets q' = p_assets q /\ same_static q q' /\
      (id <> ft_pool t -> q' = q) /\
      (id = ft_pool t ->
         swaps_enabled (p_status q') = match ft_swaps t with Some b => b | None => swaps_enabled (p_status q) end /\
         deposits_enabled (p_status q') = match ft_deposits t with Some b => b | None => deposits_enabled (p_status q) end /\
         withdrawals_enabled (p_status q') = match ft_withdrawals t with Some b => b | None => withdrawals_enabled (p_status q) end).
Proof. exact toggle_only_changes_named_status. Qed.

(* the other operations do not look at a switch that is not theirs: pricing ignores the status altogether;
   each handler tests only its own flag (C17_*_handler_reads_own_flag) *)
Theorem C17_pricing_ignores_status : forall p st offer ask,
  compute_swap (pool_with_status p st) offer ask = compute_swap p offer ask.
Proof. exact compute_swap_status_irrelevant. Qed.

(* THE FRAME. Let the switches of pool T be set to ANY status st (restat T st). Every swap, route, deposit or
   withdrawal — on T or on any other pool — whose own switch is on before and after the change is accepted or rejected
   exactly as before: same error, same messages, same resulting state up to the changed switches. So a switch
   influences nothing but the acceptance of its own operation; re-enabling restores the behaviour. *)
Theorem C17_switches_change_nothing_else : forall T st w sender funds m,
  pool_op m = true -> gate m (w_pm w) = true -> gate m (restat T st (w_pm w)) = true ->
  pm_execute (set_pm w (restat T st (w_pm w))) sender funds m = on_state (restat T st) (pm_execute w sender funds m).
Proof. exact frame_execute. Qed.

Theorem C17_operations_on_other_pools_unaffected : forall T st w sender funds m,
  pool_op m = true -> gate m (w_pm w) = true ->
  (match m with
   | PmSwap _ _ _ _ pid | PmProvide _ _ _ pid _ _ | PmWithdraw pid => pid <> T
   | PmRoute ops _ _ _ => Forall (fun o => so_pool o <> T) ops
   | _ => True end) ->
  pm_execute (set_pm w (restat T st (w_pm w))) sender funds m = on_state (restat T st) (pm_execute w sender funds m).
Proof. exact other_pools_unaffected. Qed.

(* the gate of an operation on T after the change is the corresponding switch of st, nothing else *)
Theorem C17_gate_is_the_own_switch : forall T st s sel p, pool_find s T = Ok p -> flag_of (restat T st s) T sel = sel st.
Proof. exact flag_restat_same. Qed.

(* THE FRAME FOR WHOLE TRANSACTIONS (funds transfer, handler, every sub-message, the swap -> reply -> deposit chain of a
   single-asset provision, locked deposits calling the farm manager, replies): a pool operation — or any transaction to
   another contract — that is accepted both before and after the switches of pool T were changed has exactly the same effect
   on the whole world (every balance, every contract state), up to the changed switches themselves. (fm_inv: the farm
   manager's well-formedness, an invariant of every reachable world, C05.) *)
Theorem C17_accepted_transactions_are_unaffected_by_the_switches : forall T st w sender target m funds w' w2',
  fm_inv (w_fm w) ->
  (match m with WPm pm => pool_op pm = true | _ => True end) ->
  run_tx w sender target m funds = Ok w' ->
  run_tx (reW T st w) sender target m funds = Ok w2' ->
  w2' = reW T st w'.
Proof. exact tx_frame. Qed.

(* new pools start with everything enabled *)
Theorem C17_new_pools_start_enabled : forall w funds denoms decimals fees pt oid s' msgs,
  create_pool w funds denoms decimals fees pt oid = Ok (s', msgs) ->
  exists p, pm_pools s' = sinsert p_id p (pm_pools (w_pm w)) /\
    p_status p = {| swaps_enabled := true; deposits_enabled := true; withdrawals_enabled := true |}.
Proof.
  intros w funds denoms decimals fees pt oid s' msgs H. apply create_pool_shape in H.
  destruct H as (p & _ & Hp & _ & _ & _ & _ & _ & _ & _ & _ & Hs & _). eauto.
Qed.

(* OVER HISTORIES. While the pool manager's ownership is settled (owner o, a user address, no transfer pending), through
   ANY history of operations that o does not sign - swaps, routes, deposits, withdrawals, pool creations, attempts at
   privileged messages, calls between the contracts, replies, rejected operations, injected faults - every pool keeps
   its three feature switches exactly as they are: what the owner disabled stays disabled, what is enabled stays enabled. *)
Theorem C17_switches_move_only_by_the_owner : forall o ops w,
  o <> EM -> o <> FC -> o <> PM -> o <> FM ->
  Forall (not_signed_by o) ops ->
  settled o (pm_own (w_pm w)) ->
  forall id p, sfind p_id id (pm_pools (w_pm w)) = Some p ->
    exists p', sfind p_id id (pm_pools (w_pm (run w ops))) = Some p' /\ p_id p' = p_id p /\ p_status p' = p_status p.
Proof. exact switches_move_only_by_the_owner. Qed.

(* the hypotheses are met by a real history (kernel-evaluated): the owner disabled swaps on pool "o.b"; the others then try
   to switch them back on, to take over the pool manager and to trade on the pool (rejected), deposit into it and trade
   elsewhere (accepted): swaps on "o.b" are still disabled, deposits still enabled *)
Theorem C17_switches_example : switches_statement.
Proof. exact switches_example. Qed.

Print Assumptions C17_swaps_disabled_blocks_direct_swap.
Print Assumptions C17_swaps_disabled_blocks_any_route_through_pool.
Print Assumptions C17_swaps_disabled_blocks_single_asset_deposit.
Print Assumptions C17_deposits_disabled_blocks_every_deposit.
Print Assumptions C17_withdrawals_disabled_blocks_withdrawal.
Print Assumptions C17_blocked_means_no_effect.
Print Assumptions C17_toggle_changes_only_the_named_flags.
Print Assumptions C17_pricing_ignores_status.
Print Assumptions C17_new_pools_start_enabled.
Print Assumptions C17_switches_change_nothing_else.
Print Assumptions C17_operations_on_other_pools_unaffected.
Print Assumptions C17_gate_is_the_own_switch.
Print Assumptions C17_accepted_transactions_are_unaffected_by_the_switches.
Print Assumptions C17_switches_move_only_by_the_owner.
Print Assumptions C17_switches_example.
