(* Property C17 — per-pool feature switches stop exactly the switched operation on every path.
   Statements only; proofs in Proofs/ToggleProofs.v. All theorems are about whole transactions on the chain
   model (funds transfer, handler, sub-messages, replies), from an arbitrary world, for arbitrary senders. *)
From MD.Model Require Import Base Ownable Epoch PoolMath Types PoolManager FarmManager Chain.
From MD.Proofs Require Import SwapProofs ChainProofs PmProofs ToggleProofs.

Theorem C17_swaps_disabled_blocks_direct_swap : forall w sender funds ask bp ms r pid p,
  pool_find (w_pm w) pid = Ok p -> swaps_enabled (p_status p) = false ->
  snd (step w (Tx sender PM (WPm (PmSwap ask bp ms r pid)) funds)) = false.
Proof. exact tx_swap_disabled. Qed.

Theorem C17_swaps_disabled_blocks_any_route_through_pool : forall w sender funds ops mr r ms o p,
  In o ops -> pool_find (w_pm w) (so_pool o) = Ok p -> swaps_enabled (p_status p) = false ->
  snd (step w (Tx sender PM (WPm (PmRoute ops mr r ms)) funds)) = false.
Proof. exact tx_route_disabled. Qed.

Theorem C17_swaps_disabled_blocks_single_asset_deposit : forall w sender funds ls ss r pid u l p deposit,
  aggregate_coins funds = Ok [deposit] ->
  pool_find (w_pm w) pid = Ok p -> swaps_enabled (p_status p) = false ->
  snd (step w (Tx sender PM (WPm (PmProvide ls ss r pid u l)) funds)) = false.
Proof. exact tx_single_sided_swap_disabled. Qed.

Theorem C17_deposits_disabled_blocks_every_deposit : forall w sender funds ls ss r pid u l p,
  pool_find (w_pm w) pid = Ok p -> deposits_enabled (p_status p) = false ->
  snd (step w (Tx sender PM (WPm (PmProvide ls ss r pid u l)) funds)) = false.
Proof. exact tx_provide_disabled. Qed.

Theorem C17_withdrawals_disabled_blocks_withdrawal : forall w sender funds pid p,
  pool_find (w_pm w) pid = Ok p -> withdrawals_enabled (p_status p) = false ->
  snd (step w (Tx sender PM (WPm (PmWithdraw pid)) funds)) = false.
Proof. exact tx_withdraw_disabled. Qed.

(* a rejected transaction leaves the whole world unchanged (so "blocked" means "no effect") *)
Theorem C17_blocked_means_no_effect : forall w o,
  w_fault w = None -> snd (step w o) = false -> fst (step w o) = w.
Proof. exact step_rejected_identity. Qed.

(* exactly the switched operation: a toggle changes only the status flags named in the message, only on the
   named pool; reserves and parameters of every pool are untouched; re-enabling writes the flag back *)
Theorem C17_toggle_changes_only_the_named_flags : forall w sender fc fm fee t s' msgs,
  pm_update_config w sender fc fm fee (Some t) = Ok (s', msgs) ->
  forall id q, sfind p_id id (pm_pools (w_pm w)) = Some q ->
    exists q', sfind p_id id (pm_pools s') = Some q' /\ p_assets q' = p_assets q /\ same_static q q' /\
      (id <> ft_pool t -> q' = q) /\
      (id = ft_pool t ->
         swaps_enabled (p_status q') = match ft_swaps t with Some b => b | None => swaps_enabled (p_status q) end /\
         deposits_enabled (p_status q') = match ft_deposits t with Some b => b | None => deposits_enabled (p_status q) end /\
         withdrawals_enabled (p_status q') = match ft_withdrawals t with Some b => b | None => withdrawals_enabled (p_status q) end).
Proof. exact toggle_only_changes_named_status. Qed.

(* the other operations do not look at a switch that is not theirs: pricing ignores the status altogether;
   each handler tests only its own flag (C17_*_handler_reads_own_flag) *)
Theorem C17_pricing_ignores_status : forall p st offer ask,
  compute_swap (pool_with_status p st) offer ask = compute_swap p offer ask.
Proof. exact compute_swap_status_irrelevant. Qed.

(* new pools start with everything enabled *)
Theorem C17_new_pools_start_enabled : forall w funds denoms decimals fees pt oid s' msgs,
  create_pool w funds denoms decimals fees pt oid = Ok (s', msgs) ->
  exists p, pm_pools s' = sinsert p_id p (pm_pools (w_pm w)) /\
    p_status p = {| swaps_enabled := true; deposits_enabled := true; withdrawals_enabled := true |}.
Proof.
  intros w funds denoms decimals fees pt oid s' msgs H. apply create_pool_shape in H.
  destruct H as (p & _ & Hp & _ & _ & _ & _ & _ & _ & _ & _ & Hs & _). eauto.
Qed.

Print Assumptions C17_swaps_disabled_blocks_direct_swap.
Print Assumptions C17_swaps_disabled_blocks_any_route_through_pool.
Print Assumptions C17_swaps_disabled_blocks_single_asset_deposit.
Print Assumptions C17_deposits_disabled_blocks_every_deposit.
Print Assumptions C17_withdrawals_disabled_blocks_withdrawal.
Print Assumptions C17_blocked_means_no_effect.
Print Assumptions C17_toggle_changes_only_the_named_flags.
Print Assumptions C17_pricing_ignores_status.
Print Assumptions C17_new_pools_start_enabled.
