(* Property C10 — LP weights: the weight curve is sane; changes take effect from the next epoch.
   (The "total covers the sum of users' weights" clause: see Props/C10sum.v.)  Statements only; proofs in
   Proofs/WeightProofs.v and Proofs/FarmProofs.v. *)
From MD.Model Require Import Base Ownable Epoch PoolMath Types PoolManager FarmManager Chain.
From MD.Proofs Require Import WeightProofs FarmProofs WeightGap Reconcile.

(* closed form: weight = max(floor(amount * m(d) / 10^18), amount), m(d) = floor(d^2 A/DEN) + floor(d B/DEN) + floor(C) *)
Theorem C10_weight_formula : forall amount dur w,
  calculate_weight amount dur = Ok w ->
  SECONDS_IN_DAY <= dur <= SECONDS_IN_YEAR /\ w = Z.max (amount * wmult dur / DEC) amount.
Proof. exact calculate_weight_spec. Qed.

Theorem C10_weight_at_least_amount : forall amount dur w, calculate_weight amount dur = Ok w -> amount <= w.
Proof. exact weight_ge_amount. Qed.

Theorem C10_weight_at_most_16x : forall amount dur w,
  0 <= amount -> calculate_weight amount dur = Ok w -> w <= 16 * amount.
Proof. exact weight_le_16x. Qed.

Theorem C10_weight_monotone_in_amount : forall a1 a2 dur w1 w2,
  0 <= a1 <= a2 -> calculate_weight a1 dur = Ok w1 -> calculate_weight a2 dur = Ok w2 -> w1 <= w2.
Proof. exact weight_mono_amount. Qed.

Theorem C10_weight_monotone_in_duration : forall a d1 d2 w1 w2,
  0 <= a -> d1 <= d2 -> calculate_weight a d1 = Ok w1 -> calculate_weight a d2 = Ok w2 -> w1 <= w2.
Proof. exact weight_mono_duration. Qed.

(* every weight change (create / expand / close / emergency withdraw all go through update_weights) is written
   at epoch current+1 for both the user and the contract total, never at the current or an earlier epoch *)
Theorem C10_changes_take_effect_next_epoch : forall w s recv lp amount dur fill s',
  update_weights w s recv lp amount dur fill = Ok s' ->
  exists ep wgt cw uw,
    q_current_epoch w (fm_epoch_manager (fm_cfg s)) = Ok ep /\ calculate_weight amount dur = Ok wgt /\
    fm_weights s' = w_set (w_set (fm_weights s) (mkw FM lp (ep_id ep + 1)) cw) (mkw recv lp (ep_id ep + 1)) uw /\
    cw = (if fill then latest_weight (fm_weights s) FM lp + wgt else ssub (latest_weight (fm_weights s) FM lp) wgt) /\
    uw = (let ws1 := w_set (fm_weights s) (mkw FM lp (ep_id ep + 1)) cw in
          if fill then latest_weight ws1 recv lp + wgt else ssub (latest_weight ws1 recv lp) wgt).
Proof. exact update_weights_effective_next_epoch. Qed.

(* "the total is at least the sum of users' weights": every change moves the contract total and the user's own weight by
   the same amount, so the difference total - user (the weight of everybody else) is preserved EXCEPT when a subtraction
   saturates at zero — which is exactly the class of the recorded finding F-sat (weights are not additive under flooring:
   closing a position that was built or reduced in pieces subtracts one unit more than was ever added) *)
Theorem C10_total_and_user_move_together_unless_a_subtraction_saturates : forall w s recv lp amount dur fill s',
  recv <> FM ->
  update_weights w s recv lp amount dur fill = Ok s' ->
  exists ep wgt cw uw,
    calculate_weight amount dur = Ok wgt /\
    fm_weights s' = w_set (w_set (fm_weights s) (mkw FM lp (ep_id ep + 1)) cw) (mkw recv lp (ep_id ep + 1)) uw /\
    let total := latest_weight (fm_weights s) FM lp in
    let user := latest_weight (fm_weights s) recv lp in
    (fill = true -> cw = total + wgt /\ uw = user + wgt) /\
    (fill = false -> cw = ssub total wgt /\ uw = ssub user wgt) /\
    ((fill = true \/ (wgt <= user /\ wgt <= total)) -> cw - uw = total - user).
Proof. exact update_weights_gap. Qed.

Example C10_year_multiplier : wmult SECONDS_IN_YEAR = 15999999999999999998.
Proof. exact wmult_year. Qed.

(* "a user without open positions in an LP token has no weight in it": closing a position, or withdrawing an open one
   (emergency exit), ends with the reconciliation of the user's state; if he then has no open position left in that LP denom,
   every weight entry of his for it is gone - his weight is 0 in every epoch, from whatever epoch a computation starts *)
Theorem C10_no_weight_without_open_positions_after_close : forall w sender funds id olp s' msgs p,
  close_position w sender funds id olp = Ok (s', msgs) ->
  sfind pos_id id (fm_positions (w_fm w)) = Some p ->
  no_open_in s' sender (denom_of (pos_lp p)) ->
  forall start e, address_weight_at (fm_weights s') sender (denom_of (pos_lp p)) start e = 0.
Proof. exact close_position_clears. Qed.

Theorem C10_no_weight_without_open_positions_after_withdrawal : forall w sender funds id em s' msgs p,
  withdraw_position w sender funds id em = Ok (s', msgs) ->
  sfind pos_id id (fm_positions (w_fm w)) = Some p -> pos_open p = true ->
  no_open_in s' sender (denom_of (pos_lp p)) ->
  forall start e, address_weight_at (fm_weights s') sender (denom_of (pos_lp p)) start e = 0.
Proof. exact withdraw_position_clears. Qed.

Theorem C10_reconciliation_clears_the_weight_history : forall w s recv lp s',
  reconcile_user_state w s recv lp = Ok s' ->
  forallb (fun p => negb (String.eqb (denom_of (pos_lp p)) lp)) (positions_by_receiver s recv true) = true ->
  (forall e, w_get (fm_weights s') (mkw recv lp e) = None) /\
  latest_weight (fm_weights s') recv lp = 0 /\
  forall start e, address_weight_at (fm_weights s') recv lp start e = 0.
Proof. exact reconcile_clears_weights. Qed.

Print Assumptions C10_weight_formula.
Print Assumptions C10_weight_at_least_amount.
Print Assumptions C10_weight_at_most_16x.
Print Assumptions C10_weight_monotone_in_amount.
Print Assumptions C10_weight_monotone_in_duration.
Print Assumptions C10_changes_take_effect_next_epoch.
Print Assumptions C10_year_multiplier.
Print Assumptions C10_total_and_user_move_together_unless_a_subtraction_saturates.
Print Assumptions C10_no_weight_without_open_positions_after_close.
Print Assumptions C10_no_weight_without_open_positions_after_withdrawal.
Print Assumptions C10_reconciliation_clears_the_weight_history.
