(* Property C03 — swaps never reduce pool value; no sequence of swaps is profitable.
   Constant product: full proofs (Proofs/SwapProofs.v). Stableswap: see Props/C03ss.v (refutation of the
   literal statement with a witness, plus what is proved). Statements only. *)
From MD.Model Require Import Base Ownable Epoch PoolMath Types PoolManager FarmManager Chain.
From MD.Proofs Require Import PoolMathProofs SwapProofs PmWf.

(* Every executed swap goes through perform_swap (direct swap, each router hop, the internal swap of a
   single-asset deposit). For EVERY pool of the state: type/fees/status unchanged and, for constant-product
   pools, x*y computed from the reported reserves does not decrease; pools other than the swapped one are
   untouched. Holds for all reserves, fee settings (zero included) and offer sizes. *)
Theorem C03_cp_swap_never_reduces_product : forall s offer ask pid belief ms s' sc,
  pm_wf s -> 0 <= amount_of offer ->
  perform_swap s offer ask pid belief ms = Ok (s', sc) ->
  pm_wf s' /\ pm_cfg s' = pm_cfg s /\
  forall id p, sfind p_id id (pm_pools s) = Some p ->
    exists p', sfind p_id id (pm_pools s') = Some p' /\
      p_id p' = p_id p /\ p_type p' = p_type p /\ p_fees p' = p_fees p /\ p_status p' = p_status p /\
      p_denoms p' = p_denoms p /\ p_decimals p' = p_decimals p /\ p_lp p' = p_lp p /\
      (p_type p = ConstantProduct -> prod2 (p_assets p) <= prod2 (p_assets p')) /\
      (id <> pid -> p' = p).
Proof. exact perform_swap_pools. Qed.

(* routed swaps of any length, pools may repeat *)
Theorem C03_cp_route_never_reduces_product : forall ops s prev ms fee_msgs s' out fm,
  pm_wf s -> 0 <= amount_of prev ->
  route_loop s prev ops ms fee_msgs = Ok (s', out, fm) ->
  pm_wf s' /\ pm_cfg s' = pm_cfg s /\ 0 <= amount_of out /\
  forall id p, sfind p_id id (pm_pools s) = Some p ->
    exists p', sfind p_id id (pm_pools s') = Some p' /\
      p_id p' = p_id p /\ p_type p' = p_type p /\ p_fees p' = p_fees p /\ p_status p' = p_status p /\
      p_denoms p' = p_denoms p /\ p_decimals p' = p_decimals p /\ p_lp p' = p_lp p /\
      (p_type p = ConstantProduct -> prod2 (p_assets p) <= prod2 (p_assets p')) /\
      (~ In id (map so_pool ops) -> p' = p).
Proof. exact route_loop_pools. Qed.

(* any number of swaps, in any order, through any pools *)
Theorem C03_cp_any_swap_sequence : forall l s s',
  pm_wf s -> Forall (fun r => 0 <= amount_of (rq_offer r)) l ->
  swaps_run s l = Ok s' ->
  pm_wf s' /\
  forall id p, sfind p_id id (pm_pools s) = Some p ->
    exists p', sfind p_id id (pm_pools s') = Some p' /\ p_type p' = p_type p /\
      (p_type p = ConstantProduct -> prod2 (p_assets p) <= prod2 (p_assets p')).
Proof. exact swaps_run_pools. Qed.

(* consequently: whatever the sequence, a pool that did not gain X did not lose Y — so the outside world
   (trader, fee collector, burnt supply together) cannot have gained in both assets *)
Theorem C03_cp_no_profitable_round_trip : forall x y x' y',
  0 < x' -> 0 <= y' -> x * y <= x' * y' -> x' <= x -> y <= y'.
Proof. exact cp_no_profit. Qed.

(* the arithmetic heart, for all reserves/offers: removing at most floor(y*dx/(x+dx)) keeps x*y *)
Theorem C03_cp_arith : forall x y dx out,
  0 < x + dx -> 0 <= y -> 0 <= dx -> out <= y * dx / (x + dx) -> x * y <= (x + dx) * (y - out).
Proof. exact MD.Proofs.Arith.cp_invariant. Qed.

(* the well-formedness the swap theorems assume (pm_wf: non-negative fees and reserves, two assets in a constant-product
   pool) is not an assumption about reachable states: it holds in every world reachable from genesis by any history,
   because every pool-manager message preserves it *)
Theorem C03_swap_theorems_apply_in_every_reachable_world : forall g w0 ops,
  genesis_world g = Ok w0 -> pm_wf (w_pm (run w0 ops)).
Proof. exact reachable_pm_wf. Qed.

Print Assumptions C03_cp_swap_never_reduces_product.
Print Assumptions C03_cp_route_never_reduces_product.
Print Assumptions C03_cp_any_swap_sequence.
Print Assumptions C03_cp_no_profitable_round_trip.
Print Assumptions C03_cp_arith.
Print Assumptions C03_swap_theorems_apply_in_every_reachable_world.
