(* Property C19 — stableswap pricing tracks the exact invariant or fails cleanly. PARTIAL:
   proved: the Newton iterations never return an unconverged value through the swap path (Ok => stopping test met,
   budget exhausted => ConvergeError), output + fees never exceed the reserve, the exact-invariant oracle (sign
   of an integer polynomial, strictly increasing) is sound;
   refuted with witnesses (genuine defects, known findings F-ss-D, F-d-core): the 2-unit accuracy claim, and
   "never settles on a wrong answer after failing to converge" for the deposit-side D (calculate_d_core);
   not proved: a universal accuracy bound for converged results inside the supported range (covered only by the
   correspondence with the pinned model). Statements only. *)
From MD.Model Require Import Base Ownable Epoch PoolMath Types PoolManager FarmManager.
From MD.Proofs Require Import PoolMathProofs StableExact StableProofs NewtonAccuracy.
From MD.Props Require Import Findings.

Theorem C19_newton_result_meets_stopping_test : forall n f thr cur y,
  newton n f thr cur = Ok y -> exists prev, f prev = Ok y /\ Z.abs (y - prev) <= thr.
Proof. exact newton_ok_converged. Qed.

Theorem C19_newton_fails_when_budget_exhausted : forall n f thr cur,
  (forall x y, f x = Ok y -> thr < Z.abs (y - x)) -> exists e, newton n f thr cur = Err e.
Proof. exact newton_never_settles. Qed.

Theorem C19_output_never_exceeds_reserve : forall p offer ask sc oc ac oi ai od ad amp,
  p_type p = StableSwap amp ->
  get_asset_indexes p (denom_of offer) ask = Ok (oc, ac, oi, ai, od, ad) ->
  0 <= amount_of ac -> 0 <= ad <= 18 ->
  compute_swap p offer ask = Ok sc ->
  sc_return sc + sc_swap_fee sc + sc_protocol_fee sc + sc_burn_fee sc + sc_extra_fees sc <= amount_of ac.
Proof. exact ss_output_le_reserve. Qed.

(* ACCURACY OF THE y-ITERATION (the part of "tracks the invariant" that is true of the code). The swap path solves
   y^2 + (b - D) y - c = 0 by the integer Newton step y' = floor((y^2 + c) / (2y + b - D)), stopping when two iterates differ by
   at most one unit. Whatever it returns satisfies its quadratic up to two Newton corrections: with g(t) = t^2 + (b - D) t - c
   and g'(t) = 2t + b - D > 0, the last iterate t (at most one unit from the returned y) has -2 g'(t) < g(t) <= g'(t).
   So the deviation of a quote from the exact invariant comes from the coefficients - the D that stops at a whole-token
   threshold (finding F-ss-D) and the floors in b and c -, never from this iteration. *)
Theorem C19_y_iteration_solves_its_quadratic_within_two_newton_steps : forall p offer ask apa oa amp dir y,
  stableswap_y p offer ask apa oa amp dir = Ok y ->
  exists d_dec d c b t,
    stableswap_d p (Z.of_nat (List.length (p_assets p))) amp = Ok d_dec /\
    to_uint_with_precision d_dec (maxZ_list (p_decimals p)) = Ok d /\
    Z.abs (y - t) <= 1 /\ 0 < 2 * t + b - d /\
    y = (t * t + c) / (2 * t + b - d) /\
    - 2 * (2 * t + b - d) < t * t + (b - d) * t - c <= 2 * t + b - d.
Proof. exact stableswap_y_accuracy. Qed.

Theorem C19_one_newton_step_within_a_unit_bounds_the_residual : forall t c b d den y,
  den = 2 * t + b - d -> 0 < den -> y = (t * t + c) / den -> Z.abs (y - t) <= 1 ->
  - 2 * den < t * t + (b - d) * t - c <= den.
Proof. exact newton_step_residual. Qed.

(* the oracle: F(X, .) is strictly increasing, so F(X, d) <= 0 means d <= D(X) exactly *)
Theorem C19_exact_invariant_cut_is_sound : forall ann X d1 d2,
  1 <= ann -> Forall (fun x => 0 < x) X -> 0 <= d1 < d2 -> Fpoly ann X d1 < Fpoly ann X d2.
Proof. exact Fpoly_increasing. Qed.

Theorem C19_quote_within_two_units_refuted :
  let x := 46 * 10 ^ 18 in let y := 3030 * 10 ^ 18 in
  let p := ss2 10000 x y 18 18 in let d0 := 3073549741576706555615 in
  exists sc, compute_swap p ("a", 186) "b" = Ok sc /\ sc_return sc = 176 /\
    0 < Fpoly (10000 * 2) [x; y] (d0 + 1) /\
    Fpoly (10000 * 2) [x + 186; y - (sc_return sc + 19)] (d0 + 1) <= 0.
Proof. exact F_ss_D_refuted. Qed.

Theorem C19_deposit_D_unconverged_refuted :
  compute_d 1 [("a", 10 ^ 30); ("b", 1); ("c", 1); ("d", 1)] = Ok 173827069980542812693 /\
  0 < Fpoly (1 * 4) [10 ^ 30; 1; 1; 1] 4000000000000.
Proof. exact F_d_core_refuted. Qed.

Print Assumptions C19_newton_result_meets_stopping_test.
Print Assumptions C19_newton_fails_when_budget_exhausted.
Print Assumptions C19_output_never_exceeds_reserve.
Print Assumptions C19_exact_invariant_cut_is_sound.
Print Assumptions C19_quote_within_two_units_refuted.
Print Assumptions C19_deposit_D_unconverged_refuted.
Print Assumptions C19_y_iteration_solves_its_quadratic_within_two_newton_steps.
Print Assumptions C19_one_newton_step_within_a_unit_bounds_the_residual.
