(* Property C07 — each user's reward is their weight share per epoch, however claims are scheduled. PARTIAL.
   Proved: the per-farm-epoch formula (floor(rate * user weight / total weight) with the carry-forward weights of the
   stored history, only for epochs after the cursor, from the farm's start, before its end, within its budget);
   Rewards query = what an immediate Claim pays, for users staking ANY number of LP tokens, in every reachable world
   (C07_rewards_query_equals_claim_*: the claim's walk through the denoms is framed denom by denom); a claim moves the
   cursor to its bound. Refuted (genuine defects, known findings F-until, F-first-epoch): schedule independence for claims with
   an until_epoch older than the newest snapshot, and the first effective epoch of a new LP denom for users with
   an older cursor. Not proved: schedule independence outside those classes (covered by the correspondence: Rewards is
   queried before full and split claims in the farm scenarios).
   Statements only. *)
From MD.Model Require Import Base Ownable Epoch PoolMath Types PoolManager FarmManager Chain.
From MD.Proofs Require Import WeightProofs FarmProofs RewardProofs FarmCustody FarmCustodyChain ClaimFrame BankProofs TxFarm FarmCustody ClaimSplit ClaimTwice NonVacuity PositionsSafe CursorSafe PositionsExample.

Theorem C07_reward_formula : forall s f lp recv until lc rs,
  farm_rewards s f lp recv until lc = Ok rs ->
  exists start, start_from_epoch s (f_lp f) recv lc = Ok start /\
    (match lc with Some c => start = c + 1 | None => True end) /\
    forall e r, In (e, r) rs ->
      start <= e /\ e <= until /\ f_start f <= e /\ e < f_end f /\
      exists total, contract_weight_at (fm_weights s) lp start e = Ok (Some total) /\ total <> 0 /\
        r = f_rate f * address_weight_at (fm_weights s) recv lp start e / total /\
        r + f_claimed f <= amount_of (f_asset f).
Proof. exact farm_rewards_entries. Qed.

(* rounded down: never more than the exact share, less by under one unit *)
Theorem C07_reward_rounding : forall rate uw total,
  0 <= rate -> 0 <= uw -> 0 < total ->
  rate * uw / total * total <= rate * uw /\ rate * uw < (rate * uw / total + 1) * total.
Proof.
  intros rate uw total Hr Hu Ht.
  pose proof (Z.mod_pos_bound (rate * uw) total Ht). pose proof (Z.div_mod (rate * uw) total ltac:(lia)).
  split; nia.
Qed.

Theorem C07_query_equals_claim_single_lp : forall w sender until s' msgs lp,
  addr_valid w sender = true ->
  unique_lp_denoms (positions_by_receiver (w_fm w) sender true) = [lp] ->
  claim w sender [] until = Ok (s', msgs) ->
  exists ep u rewards modified,
    q_current_epoch w (fm_epoch_manager (fm_cfg (w_fm w))) = Ok ep /\
    until_epoch_or_current until (ep_id ep) = Ok u /\
    calculate_rewards (w_fm w) lp sender u = Ok (rewards, modified) /\
    query_rewards w (w_fm w) sender until = aggregate_coins rewards /\
    (match rewards with
     | [] => msgs = []
     | _ => exists agg, aggregate_coins rewards = Ok agg /\ msgs = [plain (MBankSend sender agg)]
     end) /\
    lc_get (fm_last_claimed s') sender = Some u.
Proof. exact claim_single_lp. Qed.

Theorem C07_claim_moves_cursor : forall w sender funds until s' msgs,
  claim w sender funds until = Ok (s', msgs) ->
  exists ep u, q_current_epoch w (fm_epoch_manager (fm_cfg (w_fm w))) = Ok ep /\
    until_epoch_or_current until (ep_id ep) = Ok u /\ u <= ep_id ep /\
    lc_get (fm_last_claimed s') sender = Some u.
Proof. exact claim_moves_cursor. Qed.

(* the Rewards query equals what an immediate Claim pays, for a user with open positions in ANY number of LP tokens: a claim
   walks through the user's LP denoms updating farm budgets and the user's weight history of each as it goes, and the
   rewards of a denom do not depend on what was updated for the others (farm identifiers unique) *)
Theorem C07_rewards_query_equals_claim_for_any_number_of_lp_tokens : forall w sender until s' msgs,
  addr_valid w sender = true -> NoDup (map f_id (fm_farms (w_fm w))) ->
  claim w sender [] until = Ok (s', msgs) ->
  exists total,
    query_rewards w (w_fm w) sender until = aggregate_coins total /\
    match total with
    | [] => msgs = []
    | _ => exists agg, aggregate_coins total = Ok agg /\ msgs = [plain (MBankSend sender agg)]
    end.
Proof. exact claim_pays_what_rewards_quotes. Qed.

(* ... hence in every world reachable from genesis by any history *)
Theorem C07_rewards_query_equals_claim_in_every_reachable_world : forall g w0 ops sender until s' msgs,
  genesis_world g = Ok w0 -> 0 <= amount_of (fm_create_fee (g_fm g)) -> Forall op_ok ops ->
  let w := run w0 ops in
  addr_valid w sender = true ->
  claim w sender [] until = Ok (s', msgs) ->
  exists total,
    query_rewards w (w_fm w) sender until = aggregate_coins total /\
    match total with
    | [] => msgs = []
    | _ => exists agg, aggregate_coins total = Ok agg /\ msgs = [plain (MBankSend sender agg)]
    end.
Proof. exact reachable_claim_pays_what_rewards_quotes. Qed.

(* THE WHOLE TRANSACTION, every bank balance: the Rewards query on the state before a Claim transaction gives exactly what
   that transaction moves from the farm manager to the claimant; no other balance changes *)
Theorem C07_claim_transaction_pays_exactly_what_rewards_quotes : forall w sender until funds w',
  addr_valid w sender = true -> NoDup (map f_id (fm_farms (w_fm w))) ->
  run_tx w sender FM (WFm (FmClaim until)) funds = Ok w' ->
  exists total,
    funds = [] /\ query_rewards w (w_fm w) sender until = aggregate_coins total /\
    match total with
    | [] => forall a d, bal (w_bank w') a d = bal (w_bank w) a d
    | _ => exists agg, query_rewards w (w_fm w) sender until = Ok agg /\
             forall a d, bal (w_bank w') a d = bal (w_bank w) a d
                           - ind (String.eqb a FM) (camt agg d) + ind (String.eqb a sender) (camt agg d)
    end.
Proof. exact claim_tx_balances. Qed.

(* SCHEDULE INDEPENDENCE, farm by farm and epoch by epoch. A user whose cursor is at lc claims at u2. Had he claimed at any
   intermediate epoch u1 first (lc <= u1 <= u2), that claim would have synchronised his weight history (one entry, his latest
   weight, at u1) and increased the farm's claimed amount by what it paid; then the later claim at u2, computed on that state
   s1 with that farm record, pays for the remaining epochs exactly the amounts the single claim pays for them: the single
   claim's list of per-epoch rewards is the concatenation R1 ++ R2 of the two claims' lists.
   Hypotheses (the class outside the findings F-until / F-first-epoch): all of the user's weight entries for this LP denom
   lie in [lc, u1+1] - true whenever the previous claim was synchronised at lc and later position changes were made at or
   before epoch u1 (they are recorded for the following epoch); the contract's own history for the LP denom starts at or
   before lc+1; the single claim stays within the farm's budget (which the claim's update of the farm enforces). *)
Theorem C07_one_claim_pays_what_two_claims_pay : forall s f lp recv lc u1 u2 R e0 x0 e1 w1 e0c w0c s1,
  farm_rewards s f lp recv u2 (Some lc) = Ok R ->
  lc <= u1 <= u2 -> u1 < U64_MAX ->
  String.eqb FM recv = false ->
  w_earliest (fm_weights s) recv lp = Some (e0, x0) -> w_latest (fm_weights s) recv lp = Some (e1, w1) -> lc <= e1 <= u1 + 1 ->
  w_earliest (fm_weights s) FM lp = Some (e0c, w0c) -> e0c <= lc + 1 ->
  0 <= f_claimed f -> f_claimed f + sum_snd R <= amount_of (f_asset f) <= U128_MAX ->
  wsame lp (synced (fm_weights s) recv lp e0 e1 u1 w1) (fm_weights s1) ->
  exists R1 R2,
    farm_rewards s f lp recv u1 (Some lc) = Ok R1 /\
    farm_rewards s1 (with_claimed f (f_claimed f + sum_snd R1)) lp recv u2 (Some u1) = Ok R2 /\
    R = (R1 ++ R2)%list.
Proof. exact one_claim_is_two_claims. Qed.

(* the two facts behind it: after a synchronisation at u the user's weight is his latest weight for every later epoch, and
   the total weight of an epoch does not depend on the epoch the computation starts from *)
Theorem C07_weight_after_synchronisation : forall ws a lp e0 x0 e1 w1 u e,
  w_earliest ws a lp = Some (e0, x0) -> w_latest ws a lp = Some (e1, w1) -> u <= e ->
  address_weight_at (synced ws a lp e0 e1 u w1) a lp (u + 1) e = w1.
Proof. exact weight_after_sync. Qed.

Theorem C07_total_weight_independent_of_start : forall ws lp e0c w0c start e,
  w_earliest ws FM lp = Some (e0c, w0c) -> e0c <= start <= e ->
  contract_weight_at ws lp start e = Ok (Some (cf ws FM lp (epoch_range (e0c + 1) e) w0c)).
Proof. exact contract_weight_indep. Qed.

(* ... for all the farms of one LP denom together: the coins calculate_rewards hands out *)
Theorem C07_one_claim_pays_what_two_claims_pay_per_lp_denom : forall s sA lp recv c u1 u2 agg m agg1 m1 agg2 m2 e0 x0 e1 w1 e0c w0c,
  lc_get (fm_last_claimed s) recv = Some c -> c < u1 < u2 -> u1 < U64_MAX ->
  calculate_rewards s lp recv u2 = Ok (agg, m) ->
  calculate_rewards s lp recv u1 = Ok (agg1, m1) ->
  lc_get (fm_last_claimed sA) recv = Some u1 -> fm_cfg sA = fm_cfg s ->
  farms_by_lp sA lp (fm_max_farms (fm_cfg s))
    = map (fun f => with_claimed f (f_claimed f + sum_snd (rw s lp recv u1 (Some c) f))) (farms_by_lp s lp (fm_max_farms (fm_cfg s))) ->
  calculate_rewards sA lp recv u2 = Ok (agg2, m2) ->
  String.eqb FM recv = false ->
  w_earliest (fm_weights s) recv lp = Some (e0, x0) -> w_latest (fm_weights s) recv lp = Some (e1, w1) -> c <= e1 <= u1 + 1 ->
  w_earliest (fm_weights s) FM lp = Some (e0c, w0c) -> e0c <= c + 1 ->
  wsame lp (synced (fm_weights s) recv lp e0 e1 u1 w1) (fm_weights sA) ->
  (forall f, In f (farms_by_lp s lp (fm_max_farms (fm_cfg s))) ->
             0 <= f_claimed f /\ f_claimed f + sum_snd (rw s lp recv u2 (Some c) f) <= amount_of (f_asset f) <= U128_MAX) ->
  forall d, camt agg d = camt agg1 d + camt agg2 d.
Proof. exact calculate_rewards_split. Qed.

(* END TO END, for a user staking one LP denom: the Claim message executed up to u1 (leaving state sA) and then, in any
   later world whose farm-manager state is sA, up to u2, sends the user - coin denom by coin denom - exactly what the single
   Claim up to u2 sends him. Everything about sA (synchronised weight history, updated farm table, cursor) is derived from
   the first claim itself; the budget bound is derived from the success of the single claim. *)
Theorem C07_claiming_twice_pays_what_claiming_once_pays : forall wA wB wC sender lp c u1 u2 sA sB sC msgs1 msgs2 msgsC e1 w1 e0c w0c,
  w_fm wC = w_fm wA -> w_fm wB = sA ->
  unique_lp_denoms (positions_by_receiver (w_fm wA) sender true) = [lp] ->
  lc_get (fm_last_claimed (w_fm wA)) sender = Some c -> c < u1 < u2 -> u1 < U64_MAX ->
  claim wA sender [] (Some u1) = Ok (sA, msgs1) ->
  claim wB sender [] (Some u2) = Ok (sB, msgs2) ->
  claim wC sender [] (Some u2) = Ok (sC, msgsC) ->
  NoDup (map f_id (fm_farms (w_fm wA))) ->
  (forall f, In f (fm_farms (w_fm wA)) -> 0 <= f_claimed f <= amount_of (f_asset f) /\ amount_of (f_asset f) <= U128_MAX) ->
  String.eqb FM sender = false ->
  w_latest (fm_weights (w_fm wA)) sender lp = Some (e1, w1) -> c <= e1 <= u1 + 1 ->
  w_earliest (fm_weights (w_fm wA)) FM lp = Some (e0c, w0c) -> e0c <= c + 1 ->
  forall d, out_amt msgsC d = out_amt msgs1 d + out_amt msgs2 d.
Proof. exact claim_twice_single_lp. Qed.

(* ... and for a user staking ANY number of LP denoms (the walk of the first claim over the denoms is framed denom by denom:
   each step leaves the farms and weight histories of the other denoms as they were) *)
Theorem C07_claiming_twice_pays_what_claiming_once_pays_any_number_of_lp_denoms :
  forall wA wB wC sender c u1 u2 sA sB sC msgs1 msgs2 msgsC,
  w_fm wC = w_fm wA -> w_fm wB = sA ->
  lc_get (fm_last_claimed (w_fm wA)) sender = Some c -> c < u1 < u2 -> u1 < U64_MAX ->
  claim wA sender [] (Some u1) = Ok (sA, msgs1) ->
  claim wB sender [] (Some u2) = Ok (sB, msgs2) ->
  claim wC sender [] (Some u2) = Ok (sC, msgsC) ->
  NoDup (map f_id (fm_farms (w_fm wA))) ->
  (forall f, In f (fm_farms (w_fm wA)) -> 0 <= f_claimed f <= amount_of (f_asset f) /\ amount_of (f_asset f) <= U128_MAX) ->
  String.eqb FM sender = false ->
  (forall lp, In lp (unique_lp_denoms (positions_by_receiver (w_fm wA) sender true)) ->
     exists e1 w1 e0c w0c,
       w_latest (fm_weights (w_fm wA)) sender lp = Some (e1, w1) /\ c <= e1 <= u1 + 1 /\
       w_earliest (fm_weights (w_fm wA)) FM lp = Some (e0c, w0c) /\ e0c <= c + 1) ->
  forall d, out_amt msgsC d = out_amt msgs1 d + out_amt msgs2 d.
Proof. exact claim_twice. Qed.

(* ... on a real world (kernel-evaluated): alice claims up to 3 then up to 4: 262 + 262; at once up to 4: 524 *)
Theorem C07_claiming_twice_example : twice_statement.
Proof. exact twice_example. Qed.

(* the hypotheses are met by a real state (kernel-evaluated): cursor 2, claim at 4, intermediate claim at 3, 262 per epoch *)
Theorem C07_split_example : split_statement.
Proof. exact split_example. Qed.

(* OVER HISTORIES. A user's claim cursor (the last epoch paid to him) moves only through his own transactions: through ANY
   history of operations that o does not sign - other users' positions, claims, closes, farm operations, calls between
   the contracts, replies, rejected operations, injected faults - o's cursor is exactly what it was. Nobody else can
   advance it (making him lose epochs) or rewind it (making an epoch payable to him twice). *)
Theorem C07_claim_cursor_moves_only_by_its_owner : forall o ops w,
  o <> EM -> o <> FC -> o <> PM -> o <> FM ->
  Forall (not_signed_by o) ops ->
  lc_get (fm_last_claimed (w_fm (run w ops))) o = lc_get (fm_last_claimed (w_fm w)) o.
Proof. exact cursor_moves_only_by_its_owner. Qed.

(* the hypotheses are met by a real history (kernel-evaluated): alice's cursor is 2; carol stakes and claims (her cursor
   goes from none to 4), bob claims twice and closes his position, two days pass, every transaction accepted: alice's
   cursor is still 2 *)
Theorem C07_cursor_example : cursor_statement.
Proof. exact cursor_example. Qed.

Print Assumptions C07_reward_formula.
Print Assumptions C07_reward_rounding.
Print Assumptions C07_query_equals_claim_single_lp.
Print Assumptions C07_claim_moves_cursor.
Print Assumptions C07_rewards_query_equals_claim_for_any_number_of_lp_tokens.
Print Assumptions C07_rewards_query_equals_claim_in_every_reachable_world.
Print Assumptions C07_claim_transaction_pays_exactly_what_rewards_quotes.
Print Assumptions C07_one_claim_pays_what_two_claims_pay.
Print Assumptions C07_weight_after_synchronisation.
Print Assumptions C07_total_weight_independent_of_start.
Print Assumptions C07_split_example.
Print Assumptions C07_one_claim_pays_what_two_claims_pay_per_lp_denom.
Print Assumptions C07_claiming_twice_pays_what_claiming_once_pays.
Print Assumptions C07_claiming_twice_example.
Print Assumptions C07_claiming_twice_pays_what_claiming_once_pays_any_number_of_lp_denoms.
Print Assumptions C07_claim_cursor_moves_only_by_its_owner.
Print Assumptions C07_cursor_example.
