(* Property C14 — single-asset deposit = swap half then deposit; atomic; no residue. PARTIAL.
   Proved (handler level + chain-model atomicity): the first step only records a buffer and emits ONE sub-message —
   a swap of floor(amount/2) to the pool manager itself, continued only on success; refused on empty pools and
   pools with more than two assets; locking only for the sender; the reply runs only when the pool manager's
   balances are exactly what that swap must have produced, clears the buffer, and deposits exactly the kept half
   plus the swap proceeds (the Simulation return = what the swap paid, C12) for the chosen receiver — i.e. the second
   step IS the ordinary two-asset deposit of "half + proceeds"; no other message touches the buffer; whenever
   anything fails the whole transaction is rejected and nothing changes; with swaps disabled it is rejected.
   Not proved as one theorem: the end-to-end equality of the resulting world with the manual two-step world
   (reserves, LP, fees) — covered by the correspondence on single-asset deposits (odd and even amounts, locks).
   Statements only. *)
From MD.Model Require Import Base Ownable Epoch PoolMath Types PoolManager FarmManager Chain.
From MD.Proofs Require Import SwapProofs ChainProofs PmProofs ToggleProofs AtomicProofs.

Theorem C14_first_step : forall w sender funds ls ss r pid u l s' msgs deposit,
  aggregate_coins funds = Ok [deposit] ->
  provide_liquidity w sender funds ls ss r pid u l = Ok (s', msgs) ->
  exists p askc sim,
    pool_find (w_pm w) pid = Ok p /\ deposits_enabled (p_status p) = true /\
    existsb (fun c => amount_of c =? 0) (p_assets p) = false /\ List.length (p_assets p) = 2%nat /\
    (u <> None -> addr_or_default w r sender = sender) /\
    find (fun c => negb (String.eqb (denom_of c) (denom_of deposit))) (p_assets p) = Some askc /\
    query_simulation (w_pm w) (denom_of deposit, amount_of deposit / 2) (denom_of askc) pid = Ok sim /\
    s' = pm_with_buffer (w_pm w) (Some
           {| sb_receiver := addr_or_default w r sender;
              sb_expected_offer := (denom_of deposit, bal (w_bank w) PM (denom_of deposit));
              sb_expected_ask := (denom_of askc, ssub (bal (w_bank w) PM (denom_of askc)) (sc_protocol_fee sim + sc_burn_fee sim));
              sb_offer_half := (denom_of deposit, amount_of deposit / 2);
              sb_expected_ask_asset := (denom_of askc, sc_return sim);
              sb_data := {| ld_swap_slip := ss; ld_liq_slip := ls; ld_pool := pid; ld_unlock := u; ld_lock_id := l |} |}) /\
    msgs = [{| sm_msg := MWasm PM (WPm (PmSwap (denom_of askc) None ss None pid)) [(denom_of deposit, amount_of deposit / 2)];
               sm_id := 1; sm_reply := RSuccess |}].
Proof. exact provide_single_spec. Qed.

Theorem C14_second_step : forall w id s' msgs,
  pm_reply w id = Ok (s', msgs) ->
  id = 1 /\ exists b, pm_buffer (w_pm w) = Some b /\
    bal (w_bank w) PM (denom_of (sb_expected_offer b)) = amount_of (sb_expected_offer b) /\
    bal (w_bank w) PM (denom_of (sb_expected_ask b)) = amount_of (sb_expected_ask b) /\
    s' = pm_with_buffer (w_pm w) None /\
    msgs = [plain (MWasm PM (WPm (PmProvide (ld_liq_slip (sb_data b)) (ld_swap_slip (sb_data b)) (Some (sb_receiver b))
                                              (ld_pool (sb_data b)) (ld_unlock (sb_data b)) (ld_lock_id (sb_data b))))
                         [sb_offer_half b; sb_expected_ask_asset b])].
Proof. exact pm_reply_spec. Qed.

(* temporary bookkeeping: only a single-asset ProvideLiquidity ever writes the buffer *)
Theorem C14_buffer_touched_only_by_single_asset_deposit : forall w sender funds m s' msgs,
  pm_execute w sender funds m = Ok (s', msgs) ->
  pm_buffer s' = pm_buffer (w_pm w) \/
  (exists ls ss r pid u l deposit, m = PmProvide ls ss r pid u l /\ aggregate_coins funds = Ok [deposit]).
Proof. exact pm_execute_buffer_frame. Qed.

(* it can never be used to lock LP for, or expand a position of, someone other than the sender *)
Theorem C14_locks_only_for_sender : forall w sender funds ls ss r pid u l s' msgs,
  sender <> PM ->
  provide_liquidity w sender funds ls ss r pid u l = Ok (s', msgs) ->
  Forall (locks_only_for w sender) msgs.
Proof. exact provide_locks_only_for_sender. Qed.

(* completes entirely or changes nothing *)
Theorem C14_atomic : forall w o, snd (step w o) = false -> fst (step w o) = set_fault w None \/ fst (step w o) = w.
Proof. exact step_rejected_unchanged. Qed.

Theorem C14_rejected_when_swaps_disabled : forall w sender funds ls ss r pid u l p deposit,
  aggregate_coins funds = Ok [deposit] ->
  pool_find (w_pm w) pid = Ok p -> swaps_enabled (p_status p) = false ->
  snd (step w (Tx sender PM (WPm (PmProvide ls ss r pid u l)) funds)) = false.
Proof. exact tx_single_sided_swap_disabled. Qed.

Print Assumptions C14_first_step.
Print Assumptions C14_second_step.
Print Assumptions C14_buffer_touched_only_by_single_asset_deposit.
Print Assumptions C14_locks_only_for_sender.
Print Assumptions C14_atomic.
Print Assumptions C14_rejected_when_swaps_disabled.
