(* Property C14 — single-asset deposit = swap half then deposit; atomic; no residue.
   PROVED at transaction level on the chain model, for every world, sender, pool, amounts and tolerances:
     C14_single_asset_is_swap_then_deposit — a successful single-asset ProvideLiquidity transaction IS: the swap of
       floor(amount/2) on the pool as it was (perform_swap, with the caller's swap tolerance) followed by the ordinary
       two-asset deposit (provide_liquidity) of the kept half plus exactly the swap's proceeds, made by the pool manager
       for the chosen receiver (or locked for it) on the pool as the swap left it — same reserves, same LP minted, same
       fees as those two handlers produce; the rest of the transaction only delivers that deposit's messages;
     C14_no_bookkeeping_left — in every world reachable from genesis by any history the single-asset buffer is empty;
     C14_atomic / C14_rejected_when_swaps_disabled — all or nothing; refused when swaps are off;
     C14_first_step / C14_second_step — refused on empty and larger pools, locks only for the sender, the reply checks
       the pool manager's balances, clears the buffer and sends the second leg;
     C14_locks_only_for_sender — never locks LP for, or expands a position of, someone else.
   Remaining gap (why not "the depositor swapping and depositing by hand"): the manual route pays the proceeds to
   the depositor and takes the deposit from him, the automatic one keeps both inside the pool manager; the equality
   is stated for the pool manager's state and messages, balances are covered by C01 and by the correspondence.
   Statements only. *)
From MD.Model Require Import Base Ownable Epoch PoolMath Types PoolManager FarmManager Chain.
From MD.Proofs Require Import SwapProofs ChainProofs PmProofs ToggleProofs AtomicProofs PoolCustody PoolCustodyChain SingleSided.

Theorem C14_single_asset_is_swap_then_deposit : forall w sender funds ls ss r pid u l deposit w',
  aggregate_coins funds = Ok [deposit] ->
  run_tx w sender PM (WPm (PmProvide ls ss r pid u l)) funds = Ok w' ->
  let half := (denom_of deposit, amount_of deposit / 2) in
  exists askc sim s1 wb s2 msgs2 f fl,
    (exists p, pool_find (w_pm w) pid = Ok p /\ List.length (p_assets p) = 2%nat /\
               existsb (fun c => amount_of c =? 0) (p_assets p) = false /\
               find (fun c => negb (String.eqb (denom_of c) (denom_of deposit))) (p_assets p) = Some askc) /\
    perform_swap (w_pm w) half (denom_of askc) pid None ss = Ok (s1, sim) /\
    w_pm wb = pm_with_buffer s1 None /\
    w_em wb = w_em w /\ w_fc wb = w_fc w /\ w_fm wb = w_fm w /\
    provide_liquidity wb PM [half; (denom_of askc, sc_return sim)] ls ss (Some (addr_or_default w r sender)) pid u l = Ok (s2, msgs2) /\
    process f (set_pm wb s2) PM msgs2 = (Ok w', fl).
Proof. exact single_sided_tx. Qed.

Theorem C14_no_bookkeeping_left : forall g w0 ops,
  genesis_world g = Ok w0 -> 0 <= amount_of (fm_create_fee (g_fm g)) ->
  NoDup (map denom_of (g_tf_fee g)) -> (forall f, In f (g_tf_fee g) -> 0 <= amount_of f <= HALF_U128) ->
  0 <= amount_of (g_pm_fee g) <= HALF_U128 ->
  Forall op_okP ops -> pm_buffer (w_pm (run w0 ops)) = None.
Proof. exact reachable_no_buffer. Qed.

Theorem C14_first_step : forall w sender funds ls ss r pid u l s' msgs deposit,
  aggregate_coins funds = Ok [deposit] ->
  provide_liquidity w sender funds ls ss r pid u l = Ok (s', msgs) ->
  exists p askc sim,
    pool_find (w_pm w) pid = Ok p /\ deposits_enabled (p_status p) = true /\
    existsb (fun c => amount_of c =? 0) (p_assets p) = false /\ List.length (p_assets p) = 2%nat /\
    (u <> None -> addr_or_default w r sender = sender) /\
    find (fun c => negb (String.eqb (denom_of c) (denom_of deposit))) (p_assets p) = Some askc /\
    query_simulation (w_pm w) (denom_of deposit, amount_of deposit / 2) (denom_of askc) pid = Ok sim /\
    s' = pm_with_buffer (w_pm w) (Some
           {| sb_receiver := addr_or_default w r sender;
              sb_expected_offer := (denom_of deposit, bal (w_bank w) PM (denom_of deposit));
              sb_expected_ask := (denom_of askc, ssub (bal (w_bank w) PM (denom_of askc)) (sc_protocol_fee sim + sc_burn_fee sim));
              sb_offer_half := (denom_of deposit, amount_of deposit / 2);
              sb_expected_ask_asset := (denom_of askc, sc_return sim);
              sb_data := {| ld_swap_slip := ss; ld_liq_slip := ls; ld_pool := pid; ld_unlock := u; ld_lock_id := l |} |}) /\
    msgs = [{| sm_msg := MWasm PM (WPm (PmSwap (denom_of askc) None ss None pid)) [(denom_of deposit, amount_of deposit / 2)];
               sm_id := 1; sm_reply := RSuccess |}].
Proof. exact provide_single_spec. Qed.

Theorem C14_second_step : forall w id s' msgs,
  pm_reply w id = Ok (s', msgs) ->
  id = 1 /\ exists b, pm_buffer (w_pm w) = Some b /\
    bal (w_bank w) PM (denom_of (sb_expected_offer b)) = amount_of (sb_expected_offer b) /\
    bal (w_bank w) PM (denom_of (sb_expected_ask b)) = amount_of (sb_expected_ask b) /\
    s' = pm_with_buffer (w_pm w) None /\
    msgs = [plain (MWasm PM (WPm (PmProvide (ld_liq_slip (sb_data b)) (ld_swap_slip (sb_data b)) (Some (sb_receiver b))
                                              (ld_pool (sb_data b)) (ld_unlock (sb_data b)) (ld_lock_id (sb_data b))))
                         [sb_offer_half b; sb_expected_ask_asset b])].
Proof. exact pm_reply_spec. Qed.

(* temporary bookkeeping: only a single-asset ProvideLiquidity ever writes the buffer *)
Theorem C14_buffer_touched_only_by_single_asset_deposit : forall w sender funds m s' msgs,
  pm_execute w sender funds m = Ok (s', msgs) ->
  pm_buffer s' = pm_buffer (w_pm w) \/
  (exists ls ss r pid u l deposit, m = PmProvide ls ss r pid u l /\ aggregate_coins funds = Ok [deposit]).
Proof. exact pm_execute_buffer_frame. Qed.

(* it can never be used to lock LP for, or expand a position of, someone other than the sender *)
Theorem C14_locks_only_for_sender : forall w sender funds ls ss r pid u l s' msgs,
  sender <> PM ->
  provide_liquidity w sender funds ls ss r pid u l = Ok (s', msgs) ->
  Forall (locks_only_for w sender) msgs.
Proof. exact provide_locks_only_for_sender. Qed.

(* completes entirely or changes nothing *)
Theorem C14_atomic : forall w o, snd (step w o) = false -> fst (step w o) = set_fault w None \/ fst (step w o) = w.
Proof. exact step_rejected_unchanged. Qed.

Theorem C14_rejected_when_swaps_disabled : forall w sender funds ls ss r pid u l p deposit,
  aggregate_coins funds = Ok [deposit] ->
  pool_find (w_pm w) pid = Ok p -> swaps_enabled (p_status p) = false ->
  snd (step w (Tx sender PM (WPm (PmProvide ls ss r pid u l)) funds)) = false.
Proof. exact tx_single_sided_swap_disabled. Qed.

Print Assumptions C14_single_asset_is_swap_then_deposit.
Print Assumptions C14_no_bookkeeping_left.
Print Assumptions C14_first_step.
Print Assumptions C14_second_step.
Print Assumptions C14_buffer_touched_only_by_single_asset_deposit.
Print Assumptions C14_locks_only_for_sender.
Print Assumptions C14_atomic.
Print Assumptions C14_rejected_when_swaps_disabled.
