(* Property C04 — every swap conserves tokens and routes each fee to its destination.
   Statements only; proofs in Proofs/SwapProofs.v. *)
From MD.Model Require Import Base Ownable Epoch PoolMath Types PoolManager FarmManager Chain.
From MD.Proofs Require Import PoolMathProofs SwapProofs BankProofs TxBalances PmWf.

(* Fee structure of every swap computation (both pool types): there is a gross output such that each fee is
   the configured share of it rounded DOWN, extra fees are floored one by one, and the receiver's amount is the
   gross output minus all fees. *)
Theorem C04_fees_are_floored_shares : forall p offer ask sc,
  compute_swap p offer ask = Ok sc ->
  exists gross,
    sc_swap_fee sc = gross * swap_fee (p_fees p) / DEC /\
    sc_protocol_fee sc = gross * protocol_fee (p_fees p) / DEC /\
    sc_burn_fee sc = gross * burn_fee (p_fees p) / DEC /\
    sc_extra_fees sc = extra_sum (extra_fees (p_fees p)) gross /\
    sc_return sc = gross - sc_swap_fee sc - sc_protocol_fee sc - sc_burn_fee sc - sc_extra_fees sc /\
    0 <= sc_return sc <= U128_MAX /\
    0 <= sc_swap_fee sc <= U128_MAX /\ 0 <= sc_protocol_fee sc <= U128_MAX /\
    0 <= sc_burn_fee sc <= U128_MAX /\ 0 <= sc_extra_fees sc <= U128_MAX.
Proof. exact compute_swap_fee_spec. Qed.

Theorem C04_fee_never_more_than_share : forall gross share,
  0 <= gross -> 0 <= share -> gross * share / DEC * DEC <= gross * share.
Proof. exact fee_floor_le. Qed.

(* Reserve bookkeeping of every executed swap (direct swap, each router hop, internal swap of a single-asset
   deposit all go through perform_swap): the offer is added in full to the offer reserve, the ask reserve
   decreases by exactly return + protocol fee + burn fee (swap and extra fees stay), nothing else changes. *)
Theorem C04_reserve_update : forall s offer ask pid belief ms s' sc,
  perform_swap s offer ask pid belief ms = Ok (s', sc) ->
  exists p oi ai oc ac od ad,
    pool_find s pid = Ok p /\
    get_asset_indexes p (denom_of offer) ask = Ok (oc, ac, oi, ai, od, ad) /\
    compute_swap p offer ask = Ok sc /\
    assert_max_slippage belief ms (amount_of offer) (sc_return sc) (sc_slippage sc) = Ok tt /\
    0 <= amount_of oc + amount_of offer <= U128_MAX /\
    0 <= amount_of ac - sc_return sc - (sc_protocol_fee sc + sc_burn_fee sc) /\
    s' = pm_save_pool s (pool_with_assets p
           (set_nth ai (denom_of ac, amount_of ac - sc_return sc - (sc_protocol_fee sc + sc_burn_fee sc))
             (set_nth oi (denom_of oc, amount_of oc + amount_of offer) (p_assets p)))).
Proof. exact perform_swap_spec. Qed.

(* What leaves the contract in a direct swap: exactly the return to the chosen receiver, the burn fee destroyed,
   the protocol fee to the fee collector — and nothing else (the message list is exactly this). *)
Theorem C04_swap_messages : forall w sender funds ask belief ms receiver pid s' msgs,
  swap w sender funds ask belief ms receiver pid = Ok (s', msgs) ->
  exists p offer sc,
    pool_find (w_pm w) pid = Ok p /\ swaps_enabled (p_status p) = true /\
    one_coin funds = Ok offer /\ denom_of offer <> ask /\
    perform_swap (w_pm w) offer ask pid belief ms = Ok (s', sc) /\
    msgs = ((if sc_return sc =? 0 then [] else [plain (MBankSend (addr_or_default w receiver sender) [(ask, sc_return sc)])]) ++
            (if sc_burn_fee sc =? 0 then [] else [plain (MBankBurn [(ask, sc_burn_fee sc)])]) ++
            (if sc_protocol_fee sc =? 0 then [] else [plain (MBankSend (pm_fee_collector (pm_cfg (w_pm w))) [(ask, sc_protocol_fee sc)])]))%list.
Proof. exact swap_spec. Qed.

(* Routed swap: hop i+1 consumes exactly hop i's return; only the final output is sent to the receiver; the fee
   messages are the concatenation of the hops' fee messages. *)
Theorem C04_route_chain : forall o r s prev ms fee_msgs s' out fm,
  route_loop s prev (o :: r) ms fee_msgs = Ok (s', out, fm) ->
  exists s1 sc,
    perform_swap s prev (so_out o) (so_pool o) None ms = Ok (s1, sc) /\
    route_loop s1 (so_out o, sc_return sc) r ms (fee_msgs ++ swap_fee_msgs (pm_cfg s) (so_out o) sc) = Ok (s', out, fm).
Proof. exact route_loop_cons. Qed.

Theorem C04_route_messages : forall w sender funds ops mr receiver ms s' msgs,
  execute_swap_operations w sender funds ops mr receiver ms = Ok (s', msgs) ->
  exists lst fst_op amount out fee_msgs,
    last (map Some ops) None = Some lst /\ hd_error ops = Some fst_op /\
    must_pay funds (so_in fst_op) = Ok amount /\
    assert_operations (so_in fst_op) ops = Ok tt /\
    route_loop (w_pm w) (so_in fst_op, amount) ops ms [] = Ok (s', out, fee_msgs) /\
    (forall m, mr = Some m -> m <= amount_of out) /\
    msgs = ((if amount_of out =? 0 then []
             else [plain (MBankSend (addr_or_default w receiver sender) [(so_out lst, amount_of out)])]) ++ fee_msgs)%list.
Proof. exact exec_ops_spec. Qed.

(* THE WHOLE TRANSACTION, every bank balance: the sender pays the offer to the pool manager; out of the pool manager go
   exactly the return (to the chosen receiver), the protocol fee (to the fee collector) and the burn fee (destroyed);
   nobody else's balance changes in any denom; the amounts are those of the Simulation on the state before *)
Theorem C04_swap_transaction_moves_exactly_these_balances : forall w sender funds ask bp ms r pid w',
  run_tx w sender PM (WPm (PmSwap ask bp ms r pid)) funds = Ok w' ->
  exists offer sc,
    one_coin funds = Ok offer /\ query_simulation (w_pm w) offer ask pid = Ok sc /\
    let recv := addr_or_default w r sender in
    let fc := pm_fee_collector (pm_cfg (w_pm w)) in
    forall a d,
      bal (w_bank w') a d = bal (w_bank w) a d
        - ind (String.eqb a sender) (camt funds d) + ind (String.eqb a PM) (camt funds d)
        - ind (String.eqb a PM) (ind (String.eqb ask d) (sc_return sc + sc_protocol_fee sc + sc_burn_fee sc))
        + ind (String.eqb a recv) (ind (String.eqb ask d) (sc_return sc))
        + ind (String.eqb a fc) (ind (String.eqb ask d) (sc_protocol_fee sc)).
Proof. exact swap_tx_balances. Qed.

(* ... and the burn fee is destroyed from the supply of the ask denom; no other supply changes *)
Theorem C04_swap_transaction_burns_exactly_the_burn_fee : forall w sender funds ask bp ms r pid w',
  run_tx w sender PM (WPm (PmSwap ask bp ms r pid)) funds = Ok w' ->
  exists offer sc,
    one_coin funds = Ok offer /\ query_simulation (w_pm w) offer ask pid = Ok sc /\
    forall d, supply (w_bank w') d = supply (w_bank w) d - ind (String.eqb ask d) (sc_burn_fee sc).
Proof. exact swap_tx_supplies. Qed.

(* the well-formedness the swap theorems assume (pm_wf: non-negative fees and reserves, two assets in a constant-product
   pool) is not an assumption about reachable states: it holds in every world reachable from genesis by any history,
   because every pool-manager message preserves it *)
Theorem C04_swap_theorems_apply_in_every_reachable_world : forall g w0 ops,
  genesis_world g = Ok w0 -> pm_wf (w_pm (run w0 ops)).
Proof. exact reachable_pm_wf. Qed.

Print Assumptions C04_fees_are_floored_shares.
Print Assumptions C04_fee_never_more_than_share.
Print Assumptions C04_reserve_update.
Print Assumptions C04_swap_messages.
Print Assumptions C04_route_chain.
Print Assumptions C04_route_messages.
Print Assumptions C04_swap_transaction_moves_exactly_these_balances.
Print Assumptions C04_swap_transaction_burns_exactly_the_burn_fee.
Print Assumptions C04_swap_theorems_apply_in_every_reachable_world.
