(* Property C20 — rejected or partially failing operations leave no trace. Statements only; proofs in
   Proofs/ChainProofs.v and Proofs/AtomicProofs.v. Fault injection: [w_fault w = Some k] makes the k-th
   bank / token-factory call of the next transaction fail. *)
From MD.Model Require Import Base Ownable Epoch PoolMath Types PoolManager FarmManager Chain.
From MD.Proofs Require Import ChainProofs AtomicProofs.

(* any operation that is rejected — by validation or by a failing internal transfer, mint, burn or sub-call
   at any point (any fault position) — leaves every contract's state and every balance exactly as they were;
   only the one-shot fault marker is consumed *)
Theorem C20_rejected_leaves_no_trace : forall w o,
  snd (step w o) = false -> fst (step w o) = set_fault w None \/ fst (step w o) = w.
Proof. exact step_rejected_unchanged. Qed.

Theorem C20_rejected_leaves_no_trace_nofault : forall w o,
  w_fault w = None -> snd (step w o) = false -> fst (step w o) = w.
Proof. exact step_rejected_identity. Qed.

(* no error is ever swallowed by the pool manager: its sub-messages are fire-and-forget, except the internal
   swap of a single-asset deposit which only continues on SUCCESS *)
Theorem C20_pool_manager_never_swallows_errors : forall w sender funds m s' msgs,
  pm_execute w sender funds m = Ok (s', msgs) -> Forall sub_pm_ok msgs.
Proof. exact pm_execute_subs. Qed.

Theorem C20_pool_manager_reply : forall w id s' msgs,
  pm_reply w id = Ok (s', msgs) -> Forall sub_plain msgs /\ id = 1.
Proof. exact pm_reply_subs. Qed.

(* farm manager: the only sub-messages whose failure is tolerated are bank refunds tagged with the close-farm
   reply code; its reply handler accepts only that code and does nothing *)
Theorem C20_farm_manager_tolerates_only_close_refunds : forall w sender funds m s' msgs,
  fm_execute w sender funds m = Ok (s', msgs) -> Forall sub_fm_ok msgs.
Proof. exact fm_execute_subs. Qed.

Theorem C20_farm_manager_reply_does_nothing : forall w id s' msgs,
  fm_reply w id = Ok (s', msgs) -> s' = w_fm w /\ msgs = [] /\ id = CLOSE_FARMS_ERR_REPLY_CODE.
Proof. exact fm_reply_spec. Qed.

(* the tolerated failure: closing a farm is never blocked — whatever fault is pending, an authorised close
   succeeds, removes exactly that farm, leaves the other contracts alone, and the bank either performed
   exactly the refund to the farm's owner or (refund failed / nothing to refund) did not move at all *)
Theorem C20_close_farm_never_blocked : forall w sender id f,
  sfind f_id id (fm_farms (w_fm w)) = Some f ->
  (f_owner f = sender \/ owner (fm_own (w_fm w)) = Some sender) ->
  exists w', run_tx w sender FM (WFm (FmCloseFarm id)) [] = Ok w' /\
    w_fm w' = fm_set_farms (w_fm w) (sremove f_id (f_id f) (fm_farms (w_fm w))) /\
    w_pm w' = w_pm w /\ w_em w' = w_em w /\ w_fc w' = w_fc w /\
    let rem := ssub (amount_of (f_asset f)) (f_claimed f) in
    (w_bank w' = w_bank w \/
     (0 < rem /\ bank_send (w_bank w) FM (f_owner f) [(denom_of (f_asset f), rem)] = Ok (w_bank w'))).
Proof. exact tx_close_farm_never_blocked. Qed.

Print Assumptions C20_rejected_leaves_no_trace.
Print Assumptions C20_rejected_leaves_no_trace_nofault.
Print Assumptions C20_pool_manager_never_swallows_errors.
Print Assumptions C20_pool_manager_reply.
Print Assumptions C20_farm_manager_tolerates_only_close_refunds.
Print Assumptions C20_farm_manager_reply_does_nothing.
Print Assumptions C20_close_farm_never_blocked.
