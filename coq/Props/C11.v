(* Property C11 — farm lifecycle conserves funds and respects owners and limits.
   Statements only; proofs in Proofs/FarmProofs.v, Proofs/AtomicProofs.v.
   The funds theorem is stated for the code after the repair `fix: create_farm with a zero creation fee accepts
   exactly the farm asset` (before it, a zero fee in another denom made [reward] rejected and [reward, junk]
   accepted; recorded as fixed in known_findings.json). Known class outside these theorems (genuine defect, see
   known_findings.json): max_concurrent_farms > 100 (the fetch is clamped to 100 entries, F-clamp). *)
From MD.Model Require Import Base Ownable Epoch PoolMath Types PoolManager FarmManager Chain.
From MD.Proofs Require Import ChainProofs AtomicProofs WeightProofs FarmProofs BankProofs TxFarm FarmLimit NonVacuity FarmCustodyChain PositionsSafe FarmsSafe PositionsExample FarmCustody.

(* creation: everything that is checked and recorded. The full reward is the farm's budget, nothing is claimed,
   emission rate = floor(reward / (end - start)), start/end within the allowed buffer, the creator is the owner,
   the identifier is fresh, expired farms of the LP token are swept (closed + refunded), the number of live
   farms seen was below the limit *)
Theorem C11_create_farm : forall w sender funds p s' msgs,
  create_farm w sender funds p = Ok (s', msgs) ->
  exists ep (expired live : list farm) fee_msgs st en identifier,
    q_current_epoch w (fm_epoch_manager (fm_cfg (w_fm w))) = Ok ep /\
    Z.of_nat (List.length live) < fm_max_farms (fm_cfg (w_fm w)) /\
    (forall f, In f expired -> In f (farms_by_lp (w_fm w) (fp_lp p) (fm_max_farms (fm_cfg (w_fm w))))) /\
    MIN_FARM_AMOUNT <= amount_of (fp_asset p) /\
    (if negb (amount_of (fm_create_fee (fm_cfg (w_fm w))) =? 0)
     then process_farm_creation_fee (fm_cfg (w_fm w)) sender funds (fp_asset p) = Ok fee_msgs else fee_msgs = []) /\
    assert_farm_asset funds (fm_create_fee (fm_cfg (w_fm w))) (fp_asset p) = Ok tt /\
    validate_farm_epochs p (ep_id ep) (fm_epoch_buffer (fm_cfg (w_fm w))) = Ok (st, en) /\
    identifier = match fp_id p with Some id => ("m-" ++ id)%string
                 | None => ("f-" ++ string_of_Z (fm_farm_counter (w_fm w) + 1))%string end /\
    sfind f_id identifier (fm_farms (fst (close_farms (w_fm w) expired))) = None /\
    fm_farms s' = sinsert f_id {| f_id := identifier; f_owner := sender; f_lp := fp_lp p; f_asset := fp_asset p; f_claimed := 0;
                                  f_rate := amount_of (fp_asset p) / (en - st); f_start := st; f_end := en |}
                          (fm_farms (fst (close_farms (w_fm w) expired))) /\
    fm_positions s' = fm_positions (w_fm w) /\ fm_cfg s' = fm_cfg (w_fm w) /\ fm_own s' = fm_own (w_fm w) /\
    fm_weights s' = fm_weights (w_fm w) /\ fm_last_claimed s' = fm_last_claimed (w_fm w) /\
    msgs = (fee_msgs ++ snd (close_farms (w_fm w) expired))%list.
Proof. exact create_farm_spec. Qed.

Theorem C11_farm_epochs_within_buffer : forall p cur buffer st en,
  validate_farm_epochs p cur buffer = Ok (st, en) ->
  st = match fp_start p with Some e => e | None => cur + 1 end /\
  (match fp_end p with Some e => en = e | None => en = st + DEFAULT_FARM_DURATION end) /\
  cur < st /\ st < en /\ st <= cur + buffer.
Proof. exact validate_farm_epochs_spec. Qed.

(* what must be attached and where it goes: exactly reward + fee when the fee is in the reward denom; otherwise
   exactly the reward plus a fee coin, the fee to the fee collector and any overpayment of the fee back to the
   sender; with no fee due exactly the reward; so the farm manager always keeps exactly the reward *)
Theorem C11_creation_takes_reward_plus_fee : forall cfg sender funds asset fee_msgs,
  let fee := fm_create_fee cfg in
  0 <= amount_of fee -> 0 <= amount_of asset ->
  assert_farm_asset funds fee asset = Ok tt ->
  (if negb (amount_of fee =? 0) then process_farm_creation_fee cfg sender funds asset = Ok fee_msgs else fee_msgs = []) ->
  (denom_of fee = denom_of asset /\
   (exists d, funds = [(d, amount_of asset + amount_of fee)] /\ d = denom_of asset) /\
   fee_msgs = (if 0 <? amount_of fee then [plain (MBankSend (fm_fee_collector cfg) [fee])] else []))
  \/
  (denom_of fee <> denom_of asset /\ List.length funds = (if (amount_of fee =? 0)%Z then 1%nat else 2%nat) /\
   (exists sent, find (fun c => String.eqb (denom_of c) (denom_of asset)) funds = Some sent /\ amount_of sent = amount_of asset) /\
   (amount_of fee = 0 -> fee_msgs = [] /\ exists d, funds = [(d, amount_of asset)] /\ d = denom_of asset) /\
   (0 < amount_of fee ->
      exists paidc, find (fun c => String.eqb (denom_of c) (denom_of fee)) funds = Some paidc /\
        amount_of fee <= amount_of paidc /\
        fee_msgs = ((if amount_of paidc =? amount_of fee then []
                     else [plain (MBankSend sender [(denom_of fee, amount_of paidc - amount_of fee)])]) ++
                    [plain (MBankSend (fm_fee_collector cfg) [fee])])%list)).
Proof. exact farm_creation_funds. Qed.

(* expansion: only the farm's owner, only before it ends / expires, exactly the attached amount (which must equal
   the declared one and be a multiple of the rate) is added to the budget, the end moves by amount / rate *)
Theorem C11_expand_farm : forall w sender funds p s' msgs,
  expand_farm w sender funds p = Ok (s', msgs) ->
  msgs = [] /\
  exists id f ep reward,
    fp_id p = Some id /\ sfind f_id id (fm_farms (w_fm w)) = Some f /\ f_owner f = sender /\
    q_current_epoch w (fm_epoch_manager (fm_cfg (w_fm w))) = Ok ep /\ ep_id ep < f_end f /\
    is_farm_expired w (fm_cfg (w_fm w)) f = Ok false /\
    one_coin funds = Ok reward /\ reward = fp_asset p /\ denom_of (f_asset f) = denom_of reward /\
    f_rate f <> 0 /\ amount_of reward mod f_rate f = 0 /\
    fm_farms s' = sinsert f_id {| f_id := f_id f; f_owner := f_owner f; f_lp := f_lp f;
                                  f_asset := (denom_of (f_asset f), amount_of (f_asset f) + amount_of reward);
                                  f_claimed := f_claimed f; f_rate := f_rate f; f_start := f_start f;
                                  f_end := f_end f + amount_of reward / f_rate f |} (fm_farms (w_fm w)) /\
    fm_positions s' = fm_positions (w_fm w) /\ fm_cfg s' = fm_cfg (w_fm w) /\ fm_weights s' = fm_weights (w_fm w).
Proof. exact expand_farm_spec. Qed.

(* closing: by the farm's owner or the contract owner; refunds exactly the unclaimed remainder to the FARM'S
   OWNER and to nobody else; removes exactly that farm *)
Theorem C11_close_farm : forall w sender funds id s' msgs,
  close_farm w sender funds id = Ok (s', msgs) ->
  funds = [] /\ exists f, sfind f_id id (fm_farms (w_fm w)) = Some f /\
    (f_owner f = sender \/ owner (fm_own (w_fm w)) = Some sender) /\
    s' = fm_set_farms (w_fm w) (sremove f_id (f_id f) (fm_farms (w_fm w))) /\
    let rem := ssub (amount_of (f_asset f)) (f_claimed f) in
    msgs = (if 0 <? rem then [{| sm_msg := MBankSend (f_owner f) [(denom_of (f_asset f), rem)];
                                 sm_id := CLOSE_FARMS_ERR_REPLY_CODE; sm_reply := RError |}] else []).
Proof. exact close_farm_spec. Qed.

(* the automatic close on expiry uses the same routine: only removes farms, refunds go to each farm's owner *)
Theorem C11_auto_close_refunds_owner : forall s fs, Forall sub_fm_ok (snd (close_farms s fs)).
Proof. exact close_farms_ok. Qed.

(* THE WHOLE TRANSACTION, every bank balance: expanding a farm moves exactly the attached coins from the sender to the farm
   manager; no other balance changes *)
Theorem C11_expansion_transaction_moves_exactly_the_attached_coins : forall w sender funds p w',
  run_tx w sender FM (WFm (FmExpandFarm p)) funds = Ok w' ->
  forall a d, bal (w_bank w') a d = bal (w_bank w) a d - ind (String.eqb a sender) (camt funds d) + ind (String.eqb a FM) (camt funds d).
Proof. exact expand_farm_tx_balances. Qed.

(* THE WHOLE TRANSACTION: closing a farm (by its owner or the contract owner) removes it and refunds exactly the unclaimed
   remainder to the farm's owner and to nobody else; if that transfer fails the farm is closed all the same and no balance
   changes at all (the failure affects nothing else) *)
Theorem C11_closing_transaction_refunds_exactly_the_remainder_to_the_owner : forall w sender funds id w',
  run_tx w sender FM (WFm (FmCloseFarm id)) funds = Ok w' ->
  exists f, sfind f_id id (fm_farms (w_fm w)) = Some f /\ funds = [] /\
    (f_owner f = sender \/ owner (fm_own (w_fm w)) = Some sender) /\
    fm_farms (w_fm w') = sremove f_id (f_id f) (fm_farms (w_fm w)) /\
    let rem := ssub (amount_of (f_asset f)) (f_claimed f) in
    ((forall a d, bal (w_bank w') a d = bal (w_bank w) a d
                   - ind (String.eqb a FM) (ind (String.eqb (denom_of (f_asset f)) d) rem)
                   + ind (String.eqb a (f_owner f)) (ind (String.eqb (denom_of (f_asset f)) d) rem))
     \/ (forall a d, bal (w_bank w') a d = bal (w_bank w) a d)).
Proof. exact close_farm_tx_balances. Qed.

(* THE LIMIT OVER ALL HISTORIES: in every world reachable from genesis by any history of operations by any users (calls
   between the contracts, automatic closing of expired farms at creation, claims, config updates - which can only raise the
   limit -, rejected operations, injected faults), for every LP denom, the number of stored farms - a fortiori of unexpired
   ones - is at most the configured max_concurrent_farms, as long as that limit is <= 100 (the page-size clamp of the
   contract's own farm query; above it the claim is false: finding F-clamp). *)
Theorem C11_never_more_farms_than_the_limit_in_any_reachable_world : forall g w ops lp,
  genesis_world g = Ok w -> 0 <= amount_of (fm_create_fee (g_fm g)) ->
  fm_max_farms (fm_cfg (w_fm (run w ops))) <= MAX_FARMS_LIMIT ->
  Z.of_nat (List.length (filter (fun f => String.eqb (f_lp f) lp) (fm_farms (w_fm (run w ops)))))
    <= fm_max_farms (fm_cfg (w_fm (run w ops))).
Proof. exact reachable_farm_limit. Qed.

(* the configured limit itself never goes down, through any history (UpdateConfig refuses a decrease) *)
Theorem C11_configured_limit_never_decreases : forall ops w,
  fm_max_farms (fm_cfg (w_fm w)) <= fm_max_farms (fm_cfg (w_fm (run w ops))).
Proof. exact limit_never_decreases. Qed.

(* one farm-manager message at a time: the invariant FL (count <= limit for every LP denom, when the limit is <= 100) is
   preserved by EVERY message from EVERY sender *)
Theorem C11_every_message_preserves_the_limit : forall w sender funds m s' msgs,
  NoDup (map f_id (fm_farms (w_fm w))) ->
  fm_execute w sender funds m = Ok (s', msgs) -> FL (w_fm w) -> FL s'.
Proof. exact fm_execute_limit. Qed.

Theorem C11_limit_example : limit_statement.
Proof. exact limit_example. Qed.

(* OVER HISTORIES. Whatever OTHER people do, they cannot create a farm in somebody's name, expand or otherwise alter one of
   his farms: through ANY history of operations none of which is signed by o (a user address) - with every call between
   the contracts, replies, rejected operations and injected faults - every farm owned by o in the final world was already
   his at the start, with the same identifier, LP denom, reward denom and BUDGET, emission rate, start and end; only the
   amount already claimed may have grown (claims by stakers). "Only the farm's owner may expand it". A farm of o may
   disappear meanwhile - closed by the contract owner or swept on expiry, refunding o (C11_close_farm,
   C11_auto_close_refunds_owner) - but nothing else can happen to it. *)
Theorem C11_others_cannot_touch_a_farm : forall o ops w,
  o <> EM -> o <> FC -> o <> PM -> o <> FM ->
  Forall (not_signed_by o) ops ->
  fm_inv (w_fm w) ->
  forall id f', sfind f_id id (fm_farms (w_fm (run w ops))) = Some f' -> f_owner f' = o ->
    exists f, sfind f_id id (fm_farms (w_fm w)) = Some f /\
      f_id f' = f_id f /\ f_owner f' = f_owner f /\ f_lp f' = f_lp f /\ f_asset f' = f_asset f /\
      f_rate f' = f_rate f /\ f_start f' = f_start f /\ f_end f' = f_end f /\ f_claimed f <= f_claimed f'.
Proof. exact others_cannot_touch_farms. Qed.

(* ... stated from genesis (the well-formedness of the farm table holds in every reachable world) *)
Theorem C11_others_cannot_touch_a_farm_in_any_reachable_world : forall g w0 pre o ops,
  genesis_world g = Ok w0 -> 0 <= amount_of (fm_create_fee (g_fm g)) -> Forall op_ok pre ->
  o <> EM -> o <> FC -> o <> PM -> o <> FM ->
  Forall (not_signed_by o) ops ->
  forall id f', sfind f_id id (fm_farms (w_fm (run (run w0 pre) ops))) = Some f' -> f_owner f' = o ->
    exists f, sfind f_id id (fm_farms (w_fm (run w0 pre))) = Some f /\ farm_le f f'.
Proof. exact reachable_farms_safe. Qed.

(* the hypotheses are met by a real history (kernel-evaluated): carol's farm "m-f" (4000 uusdc) sits through bob's attempts
   to expand it, to close it and to create another farm under its name (rejected), his own farm "m-g" (accepted), two
   epochs and alice's claim: same owner, budget and end; only the claimed amount moved *)
Theorem C11_farms_example : farms_statement.
Proof. exact farms_example. Qed.

Print Assumptions C11_create_farm.
Print Assumptions C11_farm_epochs_within_buffer.
Print Assumptions C11_creation_takes_reward_plus_fee.
Print Assumptions C11_expand_farm.
Print Assumptions C11_close_farm.
Print Assumptions C11_auto_close_refunds_owner.
Print Assumptions C11_expansion_transaction_moves_exactly_the_attached_coins.
Print Assumptions C11_closing_transaction_refunds_exactly_the_remainder_to_the_owner.
Print Assumptions C11_never_more_farms_than_the_limit_in_any_reachable_world.
Print Assumptions C11_every_message_preserves_the_limit.
Print Assumptions C11_limit_example.
Print Assumptions C11_configured_limit_never_decreases.
Print Assumptions C11_others_cannot_touch_a_farm.
Print Assumptions C11_others_cannot_touch_a_farm_in_any_reachable_world.
Print Assumptions C11_farms_example.
