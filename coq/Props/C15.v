(* Property C15 — only authorised parties can perform privileged actions. Statements only; proofs in
   Proofs/AuthProofs.v. *)
From MD.Model Require Import Base Ownable Epoch PoolMath Types PoolManager FarmManager Chain.
From MD.Proofs Require Import ChainProofs PmProofs AuthProofs PositionsSafe OwnersOnly PositionsExample SwitchesSafe.

(* On all four contracts, from any world and for any sender: a configuration change (feature toggles are part
   of the pool manager's UpdateConfig), an ownership transfer proposal or a renouncement is accepted only when
   the sender is the current owner of that contract, and only without funds. [privileged] names these
   messages and the ownership record they are checked against. *)
Theorem C15_privileged_requires_owner_and_no_funds : forall w sender target m funds own,
  privileged target m = Some own ->
  snd (step w (Tx sender target m funds)) = true ->
  owner (own w) = Some sender /\ funds = [].
Proof. exact privileged_requires_owner. Qed.

(* every other sender is rejected with no state change at all *)
Theorem C15_rejected_changes_nothing : forall w o,
  w_fault w = None -> snd (step w o) = false -> fst (step w o) = w.
Proof. exact step_rejected_identity. Qed.

(* cw-ownable: what each ownership action requires and does *)
Theorem C15_ownership_actions : forall av b sender a o o',
  update_ownership av b sender a o = Ok o' ->
  match a with
  | Transfer n e => owner o = Some sender /\ av n = true /\ owner o' = owner o /\ pending_owner o' = Some n /\ pending_expiry o' = e
  | Accept => pending_owner o = Some sender /\
              (match pending_expiry o with Some e => is_expired e b = false | None => True end) /\
              owner o' = Some sender /\ pending_owner o' = None
  | Renounce => owner o = Some sender /\ owner o' = None /\ pending_owner o' = None
  end.
Proof. exact update_ownership_spec. Qed.

(* ownership moves only by the owner proposing and the proposed account accepting, or ends by renouncing *)
Theorem C15_owner_changes_only_by_handshake : forall av b sender a o o',
  update_ownership av b sender a o = Ok o' -> owner o' <> owner o ->
  (a = Accept /\ pending_owner o = Some sender /\ owner o' = Some sender) \/
  (a = Renounce /\ owner o = Some sender /\ owner o' = None).
Proof. exact owner_changes_only_by_handshake. Qed.

(* the pool manager's ownership record is touched by no message other than UpdateOwnership *)
Theorem C15_pm_owner_frame : forall w sender funds m s' msgs,
  pm_execute w sender funds m = Ok (s', msgs) ->
  (forall a, m <> PmOwnership a) -> pm_own s' = pm_own (w_pm w).
Proof. exact pm_execute_owner_frame. Qed.

Theorem C15_epoch_manager_messages : forall av b sender f m s s',
  em_execute av b sender f m s = Ok s' ->
  f = false /\
  match m with
  | EmUpdateConfig _ => owner (em_own s) = Some sender /\ em_own s' = em_own s
  | EmUpdateOwnership a => em_cfg s' = em_cfg s /\ update_ownership av b sender a (em_own s) = Ok (em_own s')
  end.
Proof. exact em_execute_auth. Qed.

(* farm manager roles: expansion reserved to the farm's owner; closing to the farm's owner or the contract
   owner; closing / withdrawing a position to its owner; topping up to the owner or the pool manager; creating
   a position for someone else only by the pool manager *)
Theorem C15_farm_manager_roles : forall w sender funds m s' msgs,
  fm_execute w sender funds m = Ok (s', msgs) ->
  match m with
  | FmUpdateConfig _ => funds = [] /\ owner (fm_own (w_fm w)) = Some sender /\ fm_own s' = fm_own (w_fm w)
  | FmOwnership a => funds = [] /\ update_ownership (addr_valid w) (w_block w) sender a (fm_own (w_fm w)) = Ok (fm_own s') /\
                     fm_cfg s' = fm_cfg (w_fm w) /\ fm_positions s' = fm_positions (w_fm w) /\ fm_farms s' = fm_farms (w_fm w)
  | FmExpandFarm p => exists id f, fp_id p = Some id /\ sfind f_id id (fm_farms (w_fm w)) = Some f /\ f_owner f = sender
  | FmCloseFarm id => funds = [] /\ exists f, sfind f_id id (fm_farms (w_fm w)) = Some f /\
                        (f_owner f = sender \/ owner (fm_own (w_fm w)) = Some sender)
  | FmPosClose id _ => funds = [] /\ exists p, sfind pos_id id (fm_positions (w_fm w)) = Some p /\ pos_recv p = sender
  | FmPosWithdraw id _ => funds = [] /\ exists p, sfind pos_id id (fm_positions (w_fm w)) = Some p /\ pos_recv p = sender
  | FmPosExpand id => exists p, sfind pos_id id (fm_positions (w_fm w)) = Some p /\
                        (pos_recv p = sender \/ sender = fm_pool_manager (fm_cfg (w_fm w)))
  | FmPosCreate _ _ (Some r) => sender = fm_pool_manager (fm_cfg (w_fm w)) \/ sender = r
  | _ => True
  end.
Proof. exact fm_privileged_auth. Qed.

Example C15_nonvacuous : privileged PM (WPm (PmUpdateConfig None None None None)) <> None /\
  privileged FC (WFc Renounce) <> None /\ privileged EM (WEm (EmUpdateConfig None)) <> None /\
  privileged FM (WFm (FmOwnership (Transfer "x" None))) <> None.
Proof. repeat split; discriminate. Qed.

(* OVER HISTORIES. While a contract's ownership is settled - it has an owner o (a user address) and no transfer is
   pending - NO history of operations that o does not sign changes that contract's ownership record or configuration:
   whatever the others do, with every call between the contracts, replies, rejected operations and injected faults.
   Epoch manager and fee collector: the whole state; pool manager: ownership record and configuration (fee collector,
   farm manager, pool creation fee); farm manager: ownership record and configuration. (The per-pool feature switches
   live in the pools: C15_switches_move_only_by_the_owner below.) *)
Theorem C15_only_the_owner_changes_ownership_and_configuration : forall o ops w,
  o <> EM -> o <> FC -> o <> PM -> o <> FM ->
  Forall (not_signed_by o) ops ->
  (settled o (em_own (w_em w)) -> w_em (run w ops) = w_em w) /\
  (settled o (w_fc w) -> w_fc (run w ops) = w_fc w) /\
  (settled o (pm_own (w_pm w)) -> pm_own (w_pm (run w ops)) = pm_own (w_pm w) /\ pm_cfg (w_pm (run w ops)) = pm_cfg (w_pm w)) /\
  (settled o (fm_own (w_fm w)) -> fm_own (w_fm (run w ops)) = fm_own (w_fm w) /\ fm_cfg (w_fm (run w ops)) = fm_cfg (w_fm w)).
Proof. exact only_the_owner_changes_ownership_and_configuration. Qed.

(* the hypotheses are met by a real history (kernel-evaluated): from the genesis of the other examples all four
   ownerships are settled with owner "owner"; the history is everything the others did there followed by their attempts
   at every privileged message of every contract (configuration changes, feature switches, transfers, acceptances,
   renouncements); pools, positions and farms exist afterwards *)
Theorem C15_owners_example : owners_statement.
Proof. exact owners_example. Qed.

(* OVER HISTORIES. While the pool manager's ownership is settled (owner o, a user address, no transfer pending), through
   ANY history of operations that o does not sign - swaps, routes, deposits, withdrawals, pool creations, attempts at
   privileged messages, calls between the contracts, replies, rejected operations, injected faults - every pool keeps
   its three feature switches exactly as they are: what the owner disabled stays disabled, what is enabled stays enabled. *)
Theorem C15_switches_move_only_by_the_owner : forall o ops w,
  o <> EM -> o <> FC -> o <> PM -> o <> FM ->
  Forall (not_signed_by o) ops ->
  settled o (pm_own (w_pm w)) ->
  forall id p, sfind p_id id (pm_pools (w_pm w)) = Some p ->
    exists p', sfind p_id id (pm_pools (w_pm (run w ops))) = Some p' /\ p_id p' = p_id p /\ p_status p' = p_status p.
Proof. exact switches_move_only_by_the_owner. Qed.

(* the hypotheses are met by a real history (kernel-evaluated): the owner disabled swaps on pool "o.b"; the others then try
   to switch them back on, to take over the pool manager and to trade on the pool (rejected), deposit into it and trade
   elsewhere (accepted): swaps on "o.b" are still disabled, deposits still enabled *)
Theorem C15_switches_example : switches_statement.
Proof. exact switches_example. Qed.

Print Assumptions C15_privileged_requires_owner_and_no_funds.
Print Assumptions C15_rejected_changes_nothing.
Print Assumptions C15_ownership_actions.
Print Assumptions C15_owner_changes_only_by_handshake.
Print Assumptions C15_pm_owner_frame.
Print Assumptions C15_epoch_manager_messages.
Print Assumptions C15_farm_manager_roles.
Print Assumptions C15_nonvacuous.
Print Assumptions C15_only_the_owner_changes_ownership_and_configuration.
Print Assumptions C15_owners_example.
Print Assumptions C15_switches_move_only_by_the_owner.
Print Assumptions C15_switches_example.
