(* Property C02 — deposits and withdrawals never dilute other liquidity providers.
   Statements only; proofs in Proofs/LiquidityProofs.v. Constant product: proved. Stableswap mint vs. exact
   invariant: not proved (sampled through the correspondence, see DESIGN.md). The withdrawal bounds are stated for
   the code after the repair `fix: withdraw_liquidity pays the exact pro-rata share` (before it the share ratio was
   truncated to 18 digits and the literal lower bound was false; recorded as fixed in known_findings.json). *)
From MD.Model Require Import Base Ownable Epoch PoolMath Types PoolManager FarmManager Chain.
From MD.Proofs Require Import PoolMathProofs SwapProofs PmProofs LiquidityProofs BankProofs TxBalances.

(* constant-product deposit: LP minted = min(floor(a*S/x), floor(b*S/y)) is never more than the depositor's
   proportional contribution in either asset ... *)
Theorem C02_cp_mint_at_most_proportional : forall a b x y S,
  0 < x -> 0 < y -> 0 <= a -> 0 <= b -> 0 <= S ->
  cp_mint a b x y S * x <= a * S /\ cp_mint a b x y S * y <= b * S.
Proof. exact cp_mint_le_share. Qed.

(* ... so pool value per LP token (x*y / S^2, compared exactly) never decreases through a deposit *)
Theorem C02_cp_deposit_never_dilutes : forall a b x y S m,
  0 < x -> 0 < y -> 0 <= a -> 0 <= b -> 0 < S -> 0 <= m ->
  m * x <= a * S -> m * y <= b * S ->
  x * y * ((S + m) * (S + m)) <= (x + a) * (y + b) * (S * S).
Proof. exact cp_deposit_value_per_lp. Qed.

Theorem C02_cp_first_deposit : forall a b, 0 <= a -> 0 <= b -> Z.sqrt (a * b) * Z.sqrt (a * b) <= a * b.
Proof. exact cp_first_deposit_value. Qed.

(* withdrawal (both pool types): the handler pays, per asset, exactly withdraw_refund reserve burned supply,
   burns exactly the LP it received, and nothing else *)
Theorem C02_withdraw_effect : forall w sender funds pid s' msgs,
  withdraw_liquidity w sender funds pid = Ok (s', msgs) ->
  exists p amount total refunds_all,
    pool_find (w_pm w) pid = Ok p /\ withdrawals_enabled (p_status p) = true /\
    must_pay funds (p_lp p) = Ok amount /\ total_share w (p_lp p) = Ok total /\ total <> 0 /\
    amount * DEC / total <= DEC /\
    refunds_all = map (fun a => (denom_of a, withdraw_refund (amount_of a) amount total)) (p_assets p) /\
    msgs = [plain (MBankSend sender (filter (fun c => 0 <? amount_of c) refunds_all)); plain (MTfBurn (p_lp p, amount))] /\
    exists a', s' = pm_save_pool (w_pm w) (pool_with_assets p a').
Proof. exact withdraw_spec. Qed.

(* at most reserve x burned / supply ... *)
Theorem C02_withdraw_at_most_pro_rata : forall r a S,
  0 <= r -> 0 <= a -> 0 < S -> withdraw_refund r a S * S <= r * a.
Proof. exact withdraw_refund_upper. Qed.

(* ... and at least that minus one smallest unit *)
Theorem C02_withdraw_at_least_pro_rata_minus_one : forall r a S,
  0 <= r -> 0 <= a -> 0 < S -> r * a < (withdraw_refund r a S + 1) * S.
Proof. exact withdraw_refund_lower. Qed.

(* while withdrawals are enabled a holder can redeem any LP amount worth at least one unit of some asset *)
Theorem C02_redeemable : forall r a S, 0 < S -> S <= r * a -> 0 < withdraw_refund r a S.
Proof. exact withdraw_refund_positive. Qed.

(* LP tokens are created only by deposits and destroyed only by withdrawals: no other pool-manager message emits
   a token-factory mint or burn (swap burn fees burn the ASK asset through the bank, not LP through the factory) *)
Theorem C02_lp_minted_only_by_deposits_burned_only_by_withdrawals : forall w sender funds m s' msgs,
  pm_execute w sender funds m = Ok (s', msgs) ->
  match m with
  | PmProvide _ _ _ _ _ _ => Forall (fun x => is_tf_burn x = false) msgs
  | PmWithdraw _ => Forall (fun x => is_tf_mint x = false) msgs
  | _ => no_mint_burn msgs
  end.
Proof. exact pm_mint_burn_only_liquidity. Qed.

(* THE WHOLE TRANSACTION, every bank balance: a withdrawal pays the sender exactly the floored pro-rata refunds out of
   the pool manager, destroys exactly the LP sent, and changes no other balance *)
Theorem C02_withdrawal_transaction_moves_exactly_these_balances : forall w sender funds pid w',
  run_tx w sender PM (WPm (PmWithdraw pid)) funds = Ok w' ->
  exists p amount total,
    pool_find (w_pm w) pid = Ok p /\ must_pay funds (p_lp p) = Ok amount /\ supply (w_bank w) (p_lp p) = total /\
    let refunds := filter (fun c => 0 <? amount_of c) (map (fun a => (denom_of a, withdraw_refund (amount_of a) amount total)) (p_assets p)) in
    forall a d,
      bal (w_bank w') a d = bal (w_bank w) a d
        - ind (String.eqb a sender) (camt funds d) + ind (String.eqb a PM) (camt funds d)
        - ind (String.eqb a PM) (camt refunds d) + ind (String.eqb a sender) (camt refunds d)
        - ind (String.eqb a PM) (ind (String.eqb (p_lp p) d) amount).
Proof. exact withdraw_tx_balances. Qed.

Print Assumptions C02_cp_mint_at_most_proportional.
Print Assumptions C02_cp_deposit_never_dilutes.
Print Assumptions C02_cp_first_deposit.
Print Assumptions C02_withdraw_effect.
Print Assumptions C02_withdraw_at_most_pro_rata.
Print Assumptions C02_withdraw_at_least_pro_rata_minus_one.
Print Assumptions C02_redeemable.
Print Assumptions C02_lp_minted_only_by_deposits_burned_only_by_withdrawals.
Print Assumptions C02_withdrawal_transaction_moves_exactly_these_balances.
