(* Property C02 — deposits and withdrawals never dilute other liquidity providers.
   Statements only; proofs in Proofs/LiquidityProofs.v. Constant product: proved. Stableswap mint vs. exact
   invariant: not proved (sampled through the correspondence, see DESIGN.md). The withdrawal bounds are stated for
   the code after the repair `fix: withdraw_liquidity pays the exact pro-rata share` (before it the share ratio was
   truncated to 18 digits and the literal lower bound was false; recorded as fixed in known_findings.json). *)
From MD.Model Require Import Base Ownable Epoch PoolMath Types PoolManager FarmManager Chain.
From MD.Proofs Require Import PoolMathProofs SwapProofs PmProofs LiquidityProofs BankProofs TxBalances PoolCustody PoolCustodyChain LockedLiquidity DepositValue NonVacuity.

(* constant-product deposit: LP minted = min(floor(a*S/x), floor(b*S/y)) is never more than the depositor's
   proportional contribution in either asset ... *)
Theorem C02_cp_mint_at_most_proportional : forall a b x y S,
  0 < x -> 0 < y -> 0 <= a -> 0 <= b -> 0 <= S ->
  cp_mint a b x y S * x <= a * S /\ cp_mint a b x y S * y <= b * S.
Proof. exact cp_mint_le_share. Qed.

(* ... so pool value per LP token (x*y / S^2, compared exactly) never decreases through a deposit *)
Theorem C02_cp_deposit_never_dilutes : forall a b x y S m,
  0 < x -> 0 < y -> 0 <= a -> 0 <= b -> 0 < S -> 0 <= m ->
  m * x <= a * S -> m * y <= b * S ->
  x * y * ((S + m) * (S + m)) <= (x + a) * (y + b) * (S * S).
Proof. exact cp_deposit_value_per_lp. Qed.

(* ... AT HANDLER LEVEL: an unlocked deposit of both assets into a funded constant-product pool (reserves x, y; LP supply S > 0;
   a, b the amounts attached of each asset, in either order) emits exactly one mint, of m LP for the chosen receiver, with
   m x <= a S and m y <= b S (m = the smaller of the two floored proportional shares), adds exactly the attached coins to the
   reserves, and therefore does not lower the value per LP token: x y (S + m)^2 <= (x + a)(y + b) S^2. *)
Theorem C02_deposit_handler_never_dilutes : forall w sender funds ls ss r pid l s' msgs d0 d1 p dx dy x y S,
  aggregate_coins funds = Ok [d0; d1] -> denom_of d0 <> denom_of d1 ->
  (forall c, In c funds -> 0 <= amount_of c) ->
  provide_liquidity w sender funds ls ss r pid None l = Ok (s', msgs) ->
  pool_find (w_pm w) pid = Ok p -> p_type p = ConstantProduct ->
  p_assets p = [(dx, x); (dy, y)] -> dx <> dy -> 0 < x -> 0 < y ->
  supply (w_bank w) (p_lp p) = S -> 0 < S ->
  exists m,
    msgs = [plain (MTfMint (p_lp p, m) (addr_or_default w r sender))] /\ 0 <= m /\
    m * x <= camt funds dx * S /\ m * y <= camt funds dy * S /\
    (forall d, PoolCustody.res s' d = PoolCustody.res (w_pm w) d + camt funds d) /\
    x * y * ((S + m) * (S + m)) <= (x + camt funds dx) * (y + camt funds dy) * (S * S).
Proof. exact provide_cp_value. Qed.

Theorem C02_cp_first_deposit : forall a b, 0 <= a -> 0 <= b -> Z.sqrt (a * b) * Z.sqrt (a * b) <= a * b.
Proof. exact cp_first_deposit_value. Qed.

(* withdrawal (both pool types): the handler pays, per asset, exactly withdraw_refund reserve burned supply,
   burns exactly the LP it received, and nothing else *)
Theorem C02_withdraw_effect : forall w sender funds pid s' msgs,
  withdraw_liquidity w sender funds pid = Ok (s', msgs) ->
  exists p amount total refunds_all,
    pool_find (w_pm w) pid = Ok p /\ withdrawals_enabled (p_status p) = true /\
    must_pay funds (p_lp p) = Ok amount /\ total_share w (p_lp p) = Ok total /\ total <> 0 /\
    amount * DEC / total <= DEC /\
    refunds_all = map (fun a => (denom_of a, withdraw_refund (amount_of a) amount total)) (p_assets p) /\
    msgs = [plain (MBankSend sender (filter (fun c => 0 <? amount_of c) refunds_all)); plain (MTfBurn (p_lp p, amount))] /\
    exists a', s' = pm_save_pool (w_pm w) (pool_with_assets p a').
Proof. exact withdraw_spec. Qed.

(* at most reserve x burned / supply ... *)
Theorem C02_withdraw_at_most_pro_rata : forall r a S,
  0 <= r -> 0 <= a -> 0 < S -> withdraw_refund r a S * S <= r * a.
Proof. exact withdraw_refund_upper. Qed.

(* ... and at least that minus one smallest unit *)
Theorem C02_withdraw_at_least_pro_rata_minus_one : forall r a S,
  0 <= r -> 0 <= a -> 0 < S -> r * a < (withdraw_refund r a S + 1) * S.
Proof. exact withdraw_refund_lower. Qed.

(* while withdrawals are enabled a holder can redeem any LP amount worth at least one unit of some asset *)
Theorem C02_redeemable : forall r a S, 0 < S -> S <= r * a -> 0 < withdraw_refund r a S.
Proof. exact withdraw_refund_positive. Qed.

(* LP tokens are created only by deposits and destroyed only by withdrawals: no other pool-manager message emits
   a token-factory mint or burn (swap burn fees burn the ASK asset through the bank, not LP through the factory) *)
Theorem C02_lp_minted_only_by_deposits_burned_only_by_withdrawals : forall w sender funds m s' msgs,
  pm_execute w sender funds m = Ok (s', msgs) ->
  match m with
  | PmProvide _ _ _ _ _ _ => Forall (fun x => is_tf_burn x = false) msgs
  | PmWithdraw _ => Forall (fun x => is_tf_mint x = false) msgs
  | _ => no_mint_burn msgs
  end.
Proof. exact pm_mint_burn_only_liquidity. Qed.

(* THE WHOLE TRANSACTION, every bank balance: a withdrawal pays the sender exactly the floored pro-rata refunds out of
   the pool manager, destroys exactly the LP sent, and changes no other balance *)
Theorem C02_withdrawal_transaction_moves_exactly_these_balances : forall w sender funds pid w',
  run_tx w sender PM (WPm (PmWithdraw pid)) funds = Ok w' ->
  exists p amount total,
    pool_find (w_pm w) pid = Ok p /\ must_pay funds (p_lp p) = Ok amount /\ supply (w_bank w) (p_lp p) = total /\
    let refunds := filter (fun c => 0 <? amount_of c) (map (fun a => (denom_of a, withdraw_refund (amount_of a) amount total)) (p_assets p)) in
    forall a d,
      bal (w_bank w') a d = bal (w_bank w) a d
        - ind (String.eqb a sender) (camt funds d) + ind (String.eqb a PM) (camt funds d)
        - ind (String.eqb a PM) (camt refunds d) + ind (String.eqb a sender) (camt refunds d)
        - ind (String.eqb a PM) (ind (String.eqb (p_lp p) d) amount).
Proof. exact withdraw_tx_balances. Qed.

(* THE LOCKED MINIMUM, over all histories. (1) The pool manager's surplus (bank balance minus the reserves of all pools)
   never decreases, per denom, through any history of operations by any users (calls between the contracts, single-asset
   provisions, locked deposits, farm operations, rejected operations and injected faults included). *)
Theorem C02_surplus_never_decreases : forall ops w d,
  Forall op_okP ops -> pool_custody w -> slackP w d <= slackP (run w ops) d.
Proof. exact run_slack_mono. Qed.

(* (2) The first deposit (LP supply zero) into a constant-product pool adds exactly MINIMUM_LIQUIDITY_AMOUNT of the LP denom
   to that surplus (plus the depositor's own shares if he names the pool manager itself as receiver). *)
Theorem C02_first_deposit_locks_the_minimum : forall w sender funds ls ss r pid l w' d0 d1 rest p,
  sender <> PM -> aggregate_coins funds = Ok (d0 :: d1 :: rest) ->
  run_tx w sender PM (WPm (PmProvide ls ss r pid None l)) funds = Ok w' ->
  pool_find (w_pm w) pid = Ok p -> p_type p = ConstantProduct -> supply (w_bank w) (p_lp p) = 0 ->
  exists shares, 0 <= shares /\
    forall d, slackP w' d = slackP w d
                + ind (String.eqb (p_lp p) d) MINIMUM_LIQUIDITY_AMOUNT
                + ind (String.eqb PM (addr_or_default w r sender)) (ind (String.eqb (p_lp p) d) shares).
Proof. exact first_deposit_tx. Qed.

(* (3) Hence it can never be redeemed: after that first deposit, in every world of every continuation of the history, the pool
   manager still holds at least MINIMUM_LIQUIDITY_AMOUNT of the LP denom beyond all reserves - the LP supply never falls below it. *)
Theorem C02_minimum_liquidity_stays_locked_forever : forall w sender funds ls ss r pid l d0 d1 rest p ops,
  pool_custody w ->
  op_okP (Tx sender PM (WPm (PmProvide ls ss r pid None l)) funds) ->
  aggregate_coins funds = Ok (d0 :: d1 :: rest) ->
  snd (step w (Tx sender PM (WPm (PmProvide ls ss r pid None l)) funds)) = true ->
  pool_find (w_pm w) pid = Ok p -> p_type p = ConstantProduct -> supply (w_bank w) (p_lp p) = 0 ->
  Forall op_okP ops ->
  MINIMUM_LIQUIDITY_AMOUNT <= slackP (run w (Tx sender PM (WPm (PmProvide ls ss r pid None l)) funds :: ops)) (p_lp p).
Proof. exact first_deposit_locks_forever. Qed.

(* the hypotheses are met by a real history (kernel-evaluated), which ends with exactly the minimum locked *)
Theorem C02_locked_minimum_example : lock_statement.
Proof. exact lock_example. Qed.

Print Assumptions C02_cp_mint_at_most_proportional.
Print Assumptions C02_cp_deposit_never_dilutes.
Print Assumptions C02_cp_first_deposit.
Print Assumptions C02_withdraw_effect.
Print Assumptions C02_withdraw_at_most_pro_rata.
Print Assumptions C02_withdraw_at_least_pro_rata_minus_one.
Print Assumptions C02_redeemable.
Print Assumptions C02_lp_minted_only_by_deposits_burned_only_by_withdrawals.
Print Assumptions C02_withdrawal_transaction_moves_exactly_these_balances.
Print Assumptions C02_surplus_never_decreases.
Print Assumptions C02_first_deposit_locks_the_minimum.
Print Assumptions C02_minimum_liquidity_stays_locked_forever.
Print Assumptions C02_locked_minimum_example.
Print Assumptions C02_deposit_handler_never_dilutes.
