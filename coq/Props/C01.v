(* Property C01 — pool reserves are always fully backed by the pool manager's real balances. PARTIAL.
   Proved, per handler, for every input (flow of funds between reserves and messages):
   swap / router hops add the whole offer and remove exactly what the messages send or burn (C04); a deposit of two
   or more assets adds every attached coin to its reserve and emits nothing but freshly minted LP (to the receiver, or
   through the pool manager to the farm manager for the depositor); a withdrawal sends exactly the refunds it
   subtracts and burns exactly the LP it received; pool creation forwards the creation fee and consumes the
   token-factory fee; single-asset deposits are a swap of half to itself followed by that deposit (C14); rejected
   operations change nothing (chain model).
   NOT proved: the inductive invariant over all histories "bank balance >= sum of reserves, excess only from
   donations / the odd unit, only minimum-liquidity LP held" itself (it needs the composition of these flows with
   the bank module through arbitrary call trees). It is checked on every run, on the IMPLEMENTATION's snapshots, by
   the decidable monitor Monitors.mon_C01 (bank balance of the pool manager >= sum of reported reserves, per denom,
   after every operation of every generated history), and through the correspondence of all balances.
   Statements only. *)
From MD.Model Require Import Base Ownable Epoch PoolMath Types PoolManager FarmManager Chain.
From MD.Proofs Require Import PoolMathProofs SwapProofs ChainProofs PmProofs LiquidityProofs.

Theorem C01_swap_flow : forall s offer ask pid belief ms s' sc,
  perform_swap s offer ask pid belief ms = Ok (s', sc) ->
  exists p oi ai oc ac od ad,
    pool_find s pid = Ok p /\
    get_asset_indexes p (denom_of offer) ask = Ok (oc, ac, oi, ai, od, ad) /\
    compute_swap p offer ask = Ok sc /\
    assert_max_slippage belief ms (amount_of offer) (sc_return sc) (sc_slippage sc) = Ok tt /\
    0 <= amount_of oc + amount_of offer <= U128_MAX /\
    0 <= amount_of ac - sc_return sc - (sc_protocol_fee sc + sc_burn_fee sc) /\
    s' = pm_save_pool s (pool_with_assets p (swap_new_assets p oi ai oc ac (amount_of offer) sc)).
Proof. exact perform_swap_spec. Qed.

Theorem C01_deposit_flow : forall w sender funds ls ss r pid u l s' msgs d0 d1 rest,
  aggregate_coins funds = Ok (d0 :: d1 :: rest) ->
  provide_liquidity w sender funds ls ss r pid u l = Ok (s', msgs) ->
  exists p pa' assets'',
    pool_find (w_pm w) pid = Ok p /\ deposits_enabled (p_status p) = true /\
    forallb (fun c => has_denom (p_assets p) (denom_of c)) (d0 :: d1 :: rest) = true /\
    assert_slippage_tolerance ls (d0 :: d1 :: rest) (p_assets p) (p_type p) = Ok pa' /\
    add_deposits (d0 :: d1 :: rest) pa' = Ok assets'' /\
    s' = pm_save_pool (w_pm w) (pool_with_assets p assets'') /\
    Forall (fun m => match sm_msg m with
                     | MTfMint _ _ => True
                     | MWasm t (WFm (FmPosCreate _ _ _)) fs | MWasm t (WFm (FmPosExpand _)) fs =>
                         t = pm_farm_manager (pm_cfg (w_pm w)) /\ exists shares, fs = [(p_lp p, shares)]
                     | _ => False end) msgs.
Proof. exact provide_multi_spec. Qed.

Theorem C01_withdraw_flow : forall w sender funds pid s' msgs,
  withdraw_liquidity w sender funds pid = Ok (s', msgs) ->
  exists p amount total refunds_all,
    pool_find (w_pm w) pid = Ok p /\ withdrawals_enabled (p_status p) = true /\
    must_pay funds (p_lp p) = Ok amount /\ total_share w (p_lp p) = Ok total /\ total <> 0 /\
    amount * DEC / total <= DEC /\
    refunds_all = map (fun a => (denom_of a, withdraw_refund (amount_of a) amount total)) (p_assets p) /\
    msgs = [plain (MBankSend sender (filter (fun c => 0 <? amount_of c) refunds_all)); plain (MTfBurn (p_lp p, amount))] /\
    exists a', s' = pm_save_pool (w_pm w) (pool_with_assets p a').
Proof. exact withdraw_spec. Qed.

Theorem C01_rejected_operations_change_nothing : forall w o,
  snd (step w o) = false -> fst (step w o) = set_fault w None \/ fst (step w o) = w.
Proof. exact step_rejected_unchanged. Qed.

Print Assumptions C01_swap_flow.
Print Assumptions C01_deposit_flow.
Print Assumptions C01_withdraw_flow.
Print Assumptions C01_rejected_operations_change_nothing.
