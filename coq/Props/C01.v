(* Property C01 — pool reserves are always fully backed by the pool manager's real balances.
   PROVED for all histories (the lower bound, which is the safety content of the property):
     C01_backed_in_every_reachable_world — from any genesis, after ANY finite history of transactions by any users
       (pool creation, deposits of any shape incl. single-asset and locked ones, withdrawals, direct and routed swaps,
       config changes, calls between the four contracts, rejected operations, bank sends to the contract, injected
       bank faults), for every denom, the sum of the reserves of all pools <= the pool manager's bank balance.
     C01_preserved_by_every_operation — the inductive step.   C01_every_message_is_accounted — the per-message
     accounting the induction rests on:   reserves' + what the emitted messages take out <= reserves + attached funds.
   Hypotheses (op_okP): no transaction is signed by the pool manager's own address (contracts cannot sign), and a
   configured pool creation fee stays below 2^127 (so fee sums stay inside u128).
   Also proved, per handler, for every input: the exact flow of funds (swap / deposit / withdrawal) and that
   rejected operations change nothing.
   The excess clause ("any excess comes only from donations or the odd unit ...; the only LP tokens held are the
   minimum liquidity") is proved TRANSACTION BY TRANSACTION as exact equalities (theorems C01_excess_through_...): swaps,
   withdrawals, unlocked deposits (first deposit: exactly the minimum liquidity in the LP denom), unlocked single-asset
   deposits (exactly amount mod 2 in the deposit denom), routes, donations. Not as theorems: the same equalities for
   locked deposits and pool creations (monitors mon_C04 / mon_C01x on the implementation).
   Statements only. *)
From MD.Model Require Import Base Ownable Epoch PoolMath Types PoolManager FarmManager Chain.
From MD.Proofs Require Import PoolMathProofs BankProofs SwapProofs ChainProofs PmProofs LiquidityProofs PoolCustody PoolCustodyChain NonVacuity SingleSided TxBalances TxExcess PmChainProofs LockedExcess SingleLockedExcess CreateExcess FarmSideExcess FarmRefundExcess ExcessLedger.

Theorem C01_backed_in_every_reachable_world : forall g w0 ops,
  genesis_world g = Ok w0 -> 0 <= amount_of (fm_create_fee (g_fm g)) ->
  NoDup (map denom_of (g_tf_fee g)) -> (forall f, In f (g_tf_fee g) -> 0 <= amount_of f <= HALF_U128) ->
  0 <= amount_of (g_pm_fee g) <= HALF_U128 ->
  Forall op_okP ops ->
  forall d, ssum (fun p => camt (p_assets p) d) (pm_pools (w_pm (run w0 ops))) <= bal (w_bank (run w0 ops)) PM d.
Proof. exact reachable_backed. Qed.

Theorem C01_preserved_by_every_operation : forall w o,
  op_okP o -> pool_custody w -> pool_custody (fst (step w o)).
Proof. exact step_pool_custody. Qed.

Theorem C01_preserved_by_every_history : forall ops w,
  Forall op_okP ops -> pool_custody w -> pool_custody (run w ops).
Proof. exact run_pool_custody. Qed.

Theorem C01_every_message_is_accounted : forall w sender funds m s' msgs,
  fees_small w -> coins_ok funds = true -> pm_msg_small m ->
  pm_execute w sender funds m = Ok (s', msgs) ->
  (forall d, res s' d + outP (w_tf_fee w) msgs d <= res (w_pm w) d + camt funds d) /\
  (0 <= amount_of (pm_creation_fee (pm_cfg s')) <= HALF_U128).
Proof. exact pm_execute_accounted. Qed.

(* inside a transaction: any call tree run by the chain lowers (balance - reserves) by at most what the running
   contract's own pending messages are entitled to take out *)
Theorem C01_call_trees : forall f w c subs w' fl,
  process f w c subs = (Ok w', fl) ->
  pinv w -> Forall small_call subs ->
  (String.eqb c PM = true -> pm_list_ok w subs) ->
  (String.eqb c PM = false -> pm_buffer (w_pm w) = None) ->
  pinv w' /\ w_tf_fee w' = w_tf_fee w /\ pm_buffer (w_pm w') = None /\
  forall d, slackP w d - (if String.eqb c PM then outP (w_tf_fee w) subs d else 0) <= slackP w' d.
Proof. exact process_pool. Qed.

Theorem C01_swap_flow : forall s offer ask pid belief ms s' sc,
  perform_swap s offer ask pid belief ms = Ok (s', sc) ->
  exists p oi ai oc ac od ad,
    pool_find s pid = Ok p /\
    get_asset_indexes p (denom_of offer) ask = Ok (oc, ac, oi, ai, od, ad) /\
    compute_swap p offer ask = Ok sc /\
    assert_max_slippage belief ms (amount_of offer) (sc_return sc) (sc_slippage sc) = Ok tt /\
    0 <= amount_of oc + amount_of offer <= U128_MAX /\
    0 <= amount_of ac - sc_return sc - (sc_protocol_fee sc + sc_burn_fee sc) /\
    s' = pm_save_pool s (pool_with_assets p (swap_new_assets p oi ai oc ac (amount_of offer) sc)).
Proof. exact perform_swap_spec. Qed.

Theorem C01_deposit_flow : forall w sender funds ls ss r pid u l s' msgs d0 d1 rest,
  aggregate_coins funds = Ok (d0 :: d1 :: rest) ->
  provide_liquidity w sender funds ls ss r pid u l = Ok (s', msgs) ->
  exists p pa' assets'',
    pool_find (w_pm w) pid = Ok p /\ deposits_enabled (p_status p) = true /\
    forallb (fun c => has_denom (p_assets p) (denom_of c)) (d0 :: d1 :: rest) = true /\
    assert_slippage_tolerance ls (d0 :: d1 :: rest) (p_assets p) (p_type p) = Ok pa' /\
    add_deposits (d0 :: d1 :: rest) pa' = Ok assets'' /\
    s' = pm_save_pool (w_pm w) (pool_with_assets p assets'') /\
    Forall (fun m => match sm_msg m with
                     | MTfMint _ _ => True
                     | MWasm t (WFm (FmPosCreate _ _ _)) fs | MWasm t (WFm (FmPosExpand _)) fs =>
                         t = pm_farm_manager (pm_cfg (w_pm w)) /\ exists shares, fs = [(p_lp p, shares)]
                     | _ => False end) msgs.
Proof. exact provide_multi_spec. Qed.

Theorem C01_withdraw_flow : forall w sender funds pid s' msgs,
  withdraw_liquidity w sender funds pid = Ok (s', msgs) ->
  exists p amount total refunds_all,
    pool_find (w_pm w) pid = Ok p /\ withdrawals_enabled (p_status p) = true /\
    must_pay funds (p_lp p) = Ok amount /\ total_share w (p_lp p) = Ok total /\ total <> 0 /\
    amount * DEC / total <= DEC /\
    refunds_all = map (fun a => (denom_of a, withdraw_refund (amount_of a) amount total)) (p_assets p) /\
    msgs = [plain (MBankSend sender (filter (fun c => 0 <? amount_of c) refunds_all)); plain (MTfBurn (p_lp p, amount))] /\
    exists a', s' = pm_save_pool (w_pm w) (pool_with_assets p a').
Proof. exact withdraw_spec. Qed.

Theorem C01_rejected_operations_change_nothing : forall w o,
  snd (step w o) = false -> fst (step w o) = set_fault w None \/ fst (step w o) = w.
Proof. exact step_rejected_unchanged. Qed.

(* the hypotheses of the history-level theorems above are met by a real history: a concrete genesis (g0) and list of
   operations (ops0: pool creation, deposits, swap, odd single-asset deposit, donation, locked deposit, position, farm,
   epochs, claim, withdrawal) satisfy all of them, every transaction of it is accepted, and afterwards reserves,
   positions and farm budgets are non-zero and the only excess is the odd unit and the donation *)
Theorem C01_hypotheses_met_by_a_real_history : nonvacuity_statement.
Proof. exact hypotheses_satisfiable_by_a_real_history. Qed.

(* THE EXCESS CLAUSE, transaction by transaction: what the pool manager holds beyond the reported reserves
   (slackP = balance - sum of reserves, per denom) changes by EXACTLY the following amounts — no rounding dust, no stray
   tokens. Proved for direct swaps, routes, withdrawals, unlocked deposits of two or more assets, unlocked single-asset deposits
   and plain bank sends; locked deposits and pool creations are covered by the lower bound above and by the
   monitors mon_C04 / mon_C01x on the implementation. *)
Theorem C01_excess_through_a_swap : forall w sender funds ask bp ms r pid w',
  sender <> PM ->
  run_tx w sender PM (WPm (PmSwap ask bp ms r pid)) funds = Ok w' ->
  exists offer sc,
    one_coin funds = Ok offer /\ query_simulation (w_pm w) offer ask pid = Ok sc /\
    forall d, slackP w' d = slackP w d
                + ind (String.eqb PM (addr_or_default w r sender)) (ind (String.eqb ask d) (sc_return sc))        (* only if the trader names the pool manager itself as receiver *)
                + ind (String.eqb PM (pm_fee_collector (pm_cfg (w_pm w)))) (ind (String.eqb ask d) (sc_protocol_fee sc)).  (* only if the owner made it its own fee collector *)
Proof. exact swap_tx_excess. Qed.

Theorem C01_excess_through_a_withdrawal : forall w sender funds pid w',
  sender <> PM ->
  run_tx w sender PM (WPm (PmWithdraw pid)) funds = Ok w' ->
  forall d, slackP w' d = slackP w d.
Proof. exact withdraw_tx_excess. Qed.

Theorem C01_excess_through_a_deposit : forall w sender funds ls ss r pid l w' d0 d1 rest,
  sender <> PM -> aggregate_coins funds = Ok (d0 :: d1 :: rest) ->
  run_tx w sender PM (WPm (PmProvide ls ss r pid None l)) funds = Ok w' ->
  exists p shares minliq,
    pool_find (w_pm w) pid = Ok p /\ 0 <= minliq /\
    forall d, slackP w' d = slackP w d
                + ind (String.eqb (p_lp p) d) minliq      (* the minimum liquidity minted to the pool manager at a first deposit (0 otherwise) *)
                + ind (String.eqb PM (addr_or_default w r sender)) (ind (String.eqb (p_lp p) d) shares).
Proof. exact provide_tx_excess. Qed.

(* the single indivisible unit of an odd single-asset deposit *)
Theorem C01_excess_through_a_single_asset_deposit : forall w sender funds ls ss r pid l deposit w',
  sender <> PM -> aggregate_coins funds = Ok [deposit] ->
  run_tx w sender PM (WPm (PmProvide ls ss r pid None l)) funds = Ok w' ->
  exists p askc sim shares minliq,
    pool_find (w_pm w) pid = Ok p /\
    query_simulation (w_pm w) (denom_of deposit, amount_of deposit / 2) (denom_of askc) pid = Ok sim /\ 0 <= minliq /\
    forall d, slackP w' d = slackP w d
                + ind (String.eqb (denom_of deposit) d) (amount_of deposit mod 2)
                + ind (String.eqb PM (pm_fee_collector (pm_cfg (w_pm w)))) (ind (String.eqb (denom_of askc) d) (sc_protocol_fee sim))
                + ind (String.eqb (p_lp p) d) minliq
                + ind (String.eqb PM (addr_or_default w (Some (addr_or_default w r sender)) PM)) (ind (String.eqb (p_lp p) d) shares).
Proof. exact single_asset_tx_excess. Qed.

(* a route leaves no residue either (fee collector distinct from the pool manager) *)
Theorem C01_excess_through_a_route : forall w sender funds ops mr r ms w',
  sender <> PM -> pm_fee_collector (pm_cfg (w_pm w)) <> PM ->
  run_tx w sender PM (WPm (PmRoute ops mr r ms)) funds = Ok w' ->
  exists lst out,
    last (map Some ops) None = Some lst /\
    forall d, slackP w' d = slackP w d + ind (String.eqb PM (addr_or_default w r sender)) (ind (String.eqb (so_out lst) d) out).
Proof. exact route_tx_excess. Qed.

(* tokens sent to the contract outside pool operations *)
Theorem C01_excess_through_a_donation : forall w from amount b',
  from <> PM -> bank_send (w_bank w) from PM amount = Ok b' ->
  forall d, slackP (set_bank w b') d = slackP w d + camt amount d.
Proof. exact donation_excess. Qed.

(* a deposit of two or more assets whose LP is LOCKED in the farm manager (the pool manager mints the LP to itself and
   forwards it with a position message - a nested contract call): the excess is unchanged in every denom, except that a pool's
   first deposit adds the minimum liquidity in the LP denom *)
Theorem C01_excess_through_a_locked_deposit : forall w sender funds ls ss r pid dur l w' d0 d1 rest,
  sender <> PM -> pm_farm_manager (pm_cfg (w_pm w)) = FM ->
  aggregate_coins funds = Ok (d0 :: d1 :: rest) ->
  run_tx w sender PM (WPm (PmProvide ls ss r pid (Some dur) l)) funds = Ok w' ->
  exists p minliq,
    pool_find (w_pm w) pid = Ok p /\ 0 <= minliq /\
    forall d, slackP w' d = slackP w d + ind (String.eqb (p_lp p) d) minliq.
Proof. exact locked_provide_tx_excess. Qed.

(* a pool creation is paid for exactly (denom by denom the attached funds are the creation fee plus the token-factory fee,
   C16_creation_funds_are_exactly_the_fees) and the new pool starts empty: the excess is unchanged in every denom *)
Theorem C01_excess_through_a_pool_creation : forall w sender funds denoms decimals fees pt oid w',
  sender <> PM -> pm_fee_collector (pm_cfg (w_pm w)) <> PM -> fees_small w ->
  (forall d, camt funds d <= U128_MAX) ->
  run_tx w sender PM (WPm (PmCreatePool denoms decimals fees pt oid)) funds = Ok w' ->
  forall d, slackP w' d = slackP w d.
Proof. exact create_pool_tx_excess. Qed.

(* ownership and configuration messages (feature switches included) move no funds and no reserves *)
Theorem C01_excess_through_ownership_and_configuration : forall w sender funds m w',
  (exists a, m = PmOwnership a) \/ (exists fc fm fee t, m = PmUpdateConfig fc fm fee t) ->
  run_tx w sender PM (WPm m) funds = Ok w' ->
  forall d, slackP w' d = slackP w d.
Proof. exact admin_tx_excess. Qed.

(* a SINGLE-ASSET deposit whose LP is locked in the farm manager (swap of half to the pool manager itself, reply, deposit of the
   kept half and the proceeds, mint to the pool manager, nested call of the farm manager): exactly the odd unit stays behind
   (plus the minimum liquidity of a first deposit in the LP denom) *)
Theorem C01_excess_through_a_locked_single_asset_deposit : forall w sender funds ls ss r pid dur l deposit w',
  sender <> PM -> pm_farm_manager (pm_cfg (w_pm w)) = FM -> aggregate_coins funds = Ok [deposit] ->
  run_tx w sender PM (WPm (PmProvide ls ss r pid (Some dur) l)) funds = Ok w' ->
  exists p askc sim minliq,
    pool_find (w_pm w) pid = Ok p /\
    query_simulation (w_pm w) (denom_of deposit, amount_of deposit / 2) (denom_of askc) pid = Ok sim /\ 0 <= minliq /\
    forall d, slackP w' d = slackP w d
                + ind (String.eqb (denom_of deposit) d) (amount_of deposit mod 2)
                + ind (String.eqb PM (pm_fee_collector (pm_cfg (w_pm w)))) (ind (String.eqb (denom_of askc) d) (sc_protocol_fee sim))
                + ind (String.eqb (p_lp p) d) minliq.
Proof. exact single_asset_locked_tx_excess. Qed.

(* transactions to the epoch manager and to the fee collector do not concern the pool manager *)
Theorem C01_excess_through_epoch_manager_and_fee_collector_transactions : forall w sender target m funds w',
  sender <> PM -> target = EM \/ target = FC ->
  run_tx w sender target m funds = Ok w' ->
  forall d, slackP w' d = slackP w d.
Proof. exact em_fc_tx_excess. Qed.

(* transactions sent to the farm manager - claims, position creations / expansions / closings / regular withdrawals, farm
   expansions, ownership and configuration messages - pay nobody but their sender and do not touch the pool manager's balance
   or reserves (farm creations and closings refund through reply-on-error sub-messages, emergency withdrawals pay third
   parties: those three kinds are not covered by this theorem) *)
Theorem C01_excess_through_farm_manager_transactions : forall w sender fm funds w',
  sender <> PM -> fm_covered fm ->
  run_tx w sender FM (WFm fm) funds = Ok w' ->
  forall d, slackP w' d = slackP w d.
Proof. exact fm_tx_excess. Qed.

(* EVERY transaction sent to the farm manager - farm creations (fee to the collector, overpayment back, refunds of the swept
   expired farms), farm closings (refund through a reply-on-error sub-message whose failure is tolerated), emergency
   withdrawals (penalty shared between farm owners and the fee collector) included - leaves the pool manager's surplus unchanged,
   as long as none of the payees (the farm manager's fee collector, the farm owners) is the pool manager itself *)
Theorem C01_excess_through_any_farm_manager_transaction : forall w sender fm funds w',
  sender <> PM -> fm_payees_ok (w_fm w) ->
  run_tx w sender FM (WFm fm) funds = Ok w' ->
  forall d, slackP w' d = slackP w d.
Proof. exact any_fm_tx_excess. Qed.

(* THE EXCESS CLAUSE OVER HISTORIES OF ALL OPERATIONS: for any history made of every kind of pool-manager message (pool creations,
   deposits of one or several assets - unlocked or locked in the farm manager -, swaps, routes, withdrawals, ownership and
   configuration messages with the feature switches), every kind of farm-manager message (farm creations / expansions /
   closings, claims, position creations / expansions / closings / withdrawals / emergency withdrawals, configuration),
   transactions to the epoch manager and the fee collector, plain bank sends, block changes, injected faults, rejected
   operations, in any order, by any users: for every denom that is not an LP denom, the excess after the history is EXACTLY
   the initial excess plus the ledger - and every ledger entry (ExcessLedger.gift) is either the amount of a plain bank send
   to the contract or the one indivisible unit of an accepted odd single-asset deposit, zero for every other operation.
   (good_run: no operation is signed by the pool manager or names it as receiver of a swap or an unlocked deposit; at every
   step neither fee collector is the pool manager itself, no farm is owned by it, the farm manager address is the farm manager
   - all checked along the run by ExcessLedger.fc_ok_run -, LP denoms are canonical and the fees are small - which hold in
   every reachable world.) *)
Theorem C01_excess_is_exactly_donations_plus_odd_units : forall ops w d,
  good_run w ops -> asset_denom d -> slackP (run w ops) d = slackP w d + ledger w ops d.
Proof. exact excess_ledger. Qed.

(* ... stated from genesis: in every world reached by ANY history (not signed by the pool manager), for every continuation made
   of covered operations that pass the run-time side conditions, the excess moves exactly by the ledger *)
Theorem C01_excess_ledger_in_every_reachable_world : forall g w0 ops1 ops2 d,
  genesis_world g = Ok w0 -> 0 <= amount_of (fm_create_fee (g_fm g)) ->
  NoDup (map denom_of (g_tf_fee g)) -> (forall f, In f (g_tf_fee g) -> 0 <= amount_of f <= HALF_U128) ->
  0 <= amount_of (g_pm_fee g) <= HALF_U128 ->
  Forall op_okP ops1 ->
  let w := run w0 ops1 in
  Forall covered_op ops2 -> Forall op_okP ops2 -> fc_ok_run w ops2 = true -> asset_denom d ->
  slackP (run w ops2) d = slackP w d + ledger w ops2 d.
Proof. exact reachable_excess_ledger. Qed.

Theorem C01_ledger_entries_are_never_negative : forall w o d, covered_op o -> 0 <= gift w o d.
Proof. exact gift_nonneg. Qed.

(* ... on a concrete history (swap, odd single-asset deposit, donation, route, a rejected swap, withdrawal): the hypotheses
   hold and the ledger is 1 unit of uusd (the odd deposit), 77 uusdc (the donation), nothing in uom *)
Theorem C01_ledger_example : ledger_statement.
Proof. exact ledger_example. Qed.

Print Assumptions C01_backed_in_every_reachable_world.
Print Assumptions C01_preserved_by_every_operation.
Print Assumptions C01_preserved_by_every_history.
Print Assumptions C01_every_message_is_accounted.
Print Assumptions C01_call_trees.
Print Assumptions C01_swap_flow.
Print Assumptions C01_deposit_flow.
Print Assumptions C01_withdraw_flow.
Print Assumptions C01_rejected_operations_change_nothing.
Print Assumptions C01_hypotheses_met_by_a_real_history.
Print Assumptions C01_excess_through_a_swap.
Print Assumptions C01_excess_through_a_withdrawal.
Print Assumptions C01_excess_through_a_deposit.
Print Assumptions C01_excess_through_a_single_asset_deposit.
Print Assumptions C01_excess_through_a_donation.
Print Assumptions C01_excess_through_a_route.
Print Assumptions C01_excess_is_exactly_donations_plus_odd_units.
Print Assumptions C01_ledger_entries_are_never_negative.
Print Assumptions C01_ledger_example.
Print Assumptions C01_excess_through_a_locked_deposit.
Print Assumptions C01_excess_through_a_pool_creation.
Print Assumptions C01_excess_through_ownership_and_configuration.
Print Assumptions C01_excess_through_a_locked_single_asset_deposit.
Print Assumptions C01_excess_through_epoch_manager_and_fee_collector_transactions.
Print Assumptions C01_excess_through_farm_manager_transactions.
Print Assumptions C01_excess_through_any_farm_manager_transaction.
Print Assumptions C01_excess_ledger_in_every_reachable_world.
