(* Property C05 — the farm manager always holds every locked LP token and every unclaimed reward.
   FULL PROOF of the custody invariant over all histories (Proofs/FarmCustody.v: per-message accounting
   obligations' + sent <= obligations + attached funds; Proofs/FarmCustodyChain.v: induction over the chain
   interpreter — arbitrary call trees, the pool manager locking LP on behalf of depositors, replies, rejected
   operations, injected faults at every bank call, tolerated refund failures):
     for every denom, bank balance of the farm manager >= sum of all positions' recorded LP amounts in that denom
                                                          + sum over live farms paying that denom of (funded - claimed),
   in every world reachable from genesis by any operations whose transactions are not signed by the farm manager's
   own address (a contract cannot sign). Farms whose reward token is itself an LP token are covered (the sum is per
   denom over both tables). The per-handler effects are restated below. The consequence "every position can be
   withdrawn / every remainder refunded, in any order" is the bank-module reading of the inequality (a send of
   at most the recorded amount cannot fail for lack of funds); the same inequality is also evaluated on the
   implementation's snapshots by Monitors.mon_C05 on every run. Statements only. *)
From MD.Model Require Import Base Ownable Epoch PoolMath Types PoolManager FarmManager Chain.
From MD.Proofs Require Import BankProofs ChainProofs AtomicProofs WeightProofs FarmProofs RewardProofs FarmCustody FarmCustodyChain NonVacuity TxFarm Redeemable PositionsExample.

(* the invariant, for every reachable world *)
Theorem C05_custody_in_every_reachable_world : forall g w0 ops d,
  genesis_world g = Ok w0 -> 0 <= amount_of (fm_create_fee (g_fm g)) -> Forall op_ok ops ->
  ssum (pos_owed d) (fm_positions (w_fm (run w0 ops))) + ssum (farm_owed d) (fm_farms (w_fm (run w0 ops)))
    <= bal (w_bank (run w0 ops)) FM d.
Proof.
  intros g w0 ops d Hg Hfee Hok. pose proof (run_custody ops w0 Hok (genesis_custody g w0 Hg Hfee)) as [_ Hs].
  specialize (Hs d). unfold slack, obl in Hs. lia.
Qed.

(* preserved by every single operation from any world satisfying it (not only from genesis) *)
Theorem C05_custody_preserved_by_every_operation : forall w o, op_ok o -> custody w -> custody (fst (step w o)).
Proof. exact step_custody. Qed.

(* the accounting behind it: every farm-manager message, from any sender, with any funds *)
Theorem C05_every_message_is_accounted : forall w sender funds m s' msgs,
  fm_inv (w_fm w) -> coins_ok funds = true -> wmsg_ok (WFm m) = true ->
  fm_execute w sender funds m = Ok (s', msgs) ->
  (Forall is_send msgs /\ forall d, obl s' d + out_amt msgs d <= obl (w_fm w) d + camt funds d) /\ fm_inv s'.
Proof. exact fm_execute_accounted. Qed.

Theorem C05_position_created_with_attached_lp : forall w sender funds oid dur receiver s' msgs,
  create_position w sender funds oid dur receiver = Ok (s', msgs) ->
  msgs = [] /\
  exists lp recv identifier,
    one_coin funds = Ok lp /\
    fm_min_unlock (fm_cfg (w_fm w)) <= dur <= fm_max_unlock (fm_cfg (w_fm w)) /\
    recv = match receiver with Some r => r | None => sender end /\
    (match receiver with Some r => sender = fm_pool_manager (fm_cfg (w_fm w)) \/ sender = r | None => True end) /\
    identifier = match oid with Some id => ("u-" ++ id)%string | None => ("p-" ++ string_of_Z (fm_pos_counter (w_fm w) + 1))%string end /\
    sfind pos_id identifier (fm_positions (w_fm w)) = None /\
    fm_positions s' = sinsert pos_id {| pos_id := identifier; pos_lp := lp; pos_dur := dur; pos_open := true; pos_exp := None; pos_recv := recv |}
                              (fm_positions (w_fm w)) /\
    fm_farms s' = fm_farms (w_fm w) /\ fm_cfg s' = fm_cfg (w_fm w) /\ fm_own s' = fm_own (w_fm w).
Proof. exact create_position_spec. Qed.

Theorem C05_withdrawal_pays_at_most_the_recorded_amount : forall w sender funds id em s' msgs,
  withdraw_position w sender funds id em = Ok (s', msgs) ->
  funds = [] /\
  exists p, sfind pos_id id (fm_positions (w_fm w)) = Some p /\ pos_recv p = sender /\
    fm_positions s' = sremove pos_id id (fm_positions (w_fm w)) /\
    fm_farms s' = fm_farms (w_fm w) /\ fm_cfg s' = fm_cfg (w_fm w) /\ fm_own s' = fm_own (w_fm w) /\
    fm_pos_counter s' = fm_pos_counter (w_fm w) /\
    let lp := denom_of (pos_lp p) in let amount := amount_of (pos_lp p) in
    let now := seconds (w_block w) in
    ((~ (em = Some true /\ position_is_expired p now = false) /\
      (exists e, pos_exp p = Some e /\ e <= now) /\
      msgs = (if amount =? 0 then [] else [send_to (pos_recv p) lp amount]))
     \/
     (em = Some true /\ position_is_expired p now = false /\
      exists tp owners per collector,
        0 <= tp < amount /\ tp * 10 <= amount * 9 /\
        0 <= per /\ 0 <= collector /\ Z.of_nat (List.length owners) * per + collector <= tp /\
        (owners = [] -> collector = tp) /\
        msgs = (map (fun o => send_to o lp per) owners ++
                (if 0 <? collector then [send_to (fm_fee_collector (fm_cfg (w_fm w))) lp collector] else []) ++
                (if ssub amount tp =? 0 then [] else [send_to (pos_recv p) lp (ssub amount tp)]))%list)).
Proof. exact withdraw_position_spec. Qed.

Theorem C05_close_farm_refunds_exactly_the_remainder : forall w sender funds id s' msgs,
  close_farm w sender funds id = Ok (s', msgs) ->
  funds = [] /\ exists f, sfind f_id id (fm_farms (w_fm w)) = Some f /\
    (f_owner f = sender \/ owner (fm_own (w_fm w)) = Some sender) /\
    s' = fm_set_farms (w_fm w) (sremove f_id (f_id f) (fm_farms (w_fm w))) /\
    let rem := ssub (amount_of (f_asset f)) (f_claimed f) in
    msgs = (if 0 <? rem then [{| sm_msg := MBankSend (f_owner f) [(denom_of (f_asset f), rem)];
                                 sm_id := CLOSE_FARMS_ERR_REPLY_CODE; sm_reply := RError |}] else []).
Proof. exact close_farm_spec. Qed.

Theorem C05_claims_never_exceed_the_funded_amount : forall modified fs fs',
  foldM (fun fs m =>
           let* f := of_option (sfind f_id (fst m) fs) "panic: unwrap on None" in
           let* c := cadd U128_MAX (f_claimed f) (snd m) in
           let* _ := ensure (c <=? amount_of (f_asset f)) "FarmExhausted" in
           Ok (sinsert f_id {| f_id := f_id f; f_owner := f_owner f; f_lp := f_lp f; f_asset := f_asset f;
                               f_claimed := c; f_rate := f_rate f; f_start := f_start f; f_end := f_end f |} fs))
        modified fs = Ok fs' ->
  Forall (fun m => 0 <= snd m) modified ->
  forall id f', sfind f_id id fs' = Some f' ->
    exists f, sfind f_id id fs = Some f /\ farm_same_but_claimed f f' \/ (sfind f_id id fs = Some f' /\ f = f').
Proof. exact claim_farm_update_bounded. Qed.

(* the hypotheses of the history-level theorems above are met by a real history: a concrete genesis (g0) and list of
   operations (ops0: pool creation, deposits, swap, odd single-asset deposit, donation, locked deposit, position, farm,
   epochs, claim, withdrawal) satisfy all of them, every transaction of it is accepted, and afterwards reserves,
   positions and farm budgets are non-zero and the only excess is the odd unit and the donation *)
Theorem C05_hypotheses_met_by_a_real_history : nonvacuity_statement.
Proof. exact hypotheses_satisfiable_by_a_real_history. Qed.

(* THE WHOLE TRANSACTION, every bank balance: creating a position moves exactly the attached LP from the sender to the
   farm manager; no other balance changes *)
Theorem C05_position_creation_transaction_moves_exactly_the_attached_lp : forall w sender funds oid dur receiver w',
  run_tx w sender FM (WFm (FmPosCreate oid dur receiver)) funds = Ok w' ->
  forall a d, bal (w_bank w') a d = bal (w_bank w) a d - ind (String.eqb a sender) (camt funds d) + ind (String.eqb a FM) (camt funds d).
Proof. exact position_create_tx_balances. Qed.

(* "HENCE every position can be withdrawn in full ... at any time": in every world where the custody invariant holds
   (every reachable world, C05_custody_in_every_reachable_world) and no fault is being injected, the WITHDRAWAL TRANSACTION of a closed
   position whose unlock instant has been reached, sent by its owner, SUCCEEDS - the handler accepts it (C08_withdraw_iff)
   and the farm manager's bank balance covers the transfer of the whole recorded amount (C05); what it moves is
   C08_withdrawal_transaction_moves_exactly_these_balances. (Side conditions of a real bank: the owner is not the farm
   manager itself, his balance is not negative and stays within u128.) *)
Theorem C05_closed_position_withdrawal_transaction_succeeds : forall g w0 ops o id q e,
  genesis_world g = Ok w0 -> 0 <= amount_of (fm_create_fee (g_fm g)) -> Forall op_ok ops ->
  let w := run w0 ops in
  w_fault w = None ->
  sfind pos_id id (fm_positions (w_fm w)) = Some q -> pos_recv q = o -> pos_open q = false -> pos_exp q = Some e ->
  e <= seconds (w_block w) ->
  o <> FM ->
  0 <= bal (w_bank w) o (denom_of (pos_lp q)) ->
  bal (w_bank w) o (denom_of (pos_lp q)) + amount_of (pos_lp q) <= U128_MAX ->
  exists w', run_tx w o FM (WFm (FmPosWithdraw id None)) [] = Ok w'.
Proof. exact reachable_closed_position_withdrawable. Qed.

(* ... on a real history (kernel-evaluated): after everything bob and carol did, alice's withdrawal transaction is
   accepted and moves exactly 500000 LP from the farm manager to her *)
Theorem C05_redeem_example : redeem_statement.
Proof. exact redeem_example. Qed.

Print Assumptions C05_custody_in_every_reachable_world.
Print Assumptions C05_custody_preserved_by_every_operation.
Print Assumptions C05_every_message_is_accounted.
Print Assumptions C05_position_created_with_attached_lp.
Print Assumptions C05_withdrawal_pays_at_most_the_recorded_amount.
Print Assumptions C05_close_farm_refunds_exactly_the_remainder.
Print Assumptions C05_claims_never_exceed_the_funded_amount.
Print Assumptions C05_hypotheses_met_by_a_real_history.
Print Assumptions C05_position_creation_transaction_moves_exactly_the_attached_lp.
Print Assumptions C05_closed_position_withdrawal_transaction_succeeds.
Print Assumptions C05_redeem_example.
