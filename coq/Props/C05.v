(* Property C05 — the farm manager always holds every locked LP token and every unclaimed reward. PARTIAL.
   Proved, per handler, for every input: what each message adds to / removes from the recorded obligations and what
   it sends: creating / topping up a position records exactly the attached LP (C08); closing (full or partial) keeps
   the recorded total; a withdrawal (normal or emergency) deletes the position and pays out at most its recorded
   amount (C09); farm creation records exactly the reward as budget, forwards the fee, refunds overpayment (C11);
   expansion adds exactly the attached amount; closing refunds exactly amount - claimed to the farm's owner; a
   tolerated failing refund leaves the tokens with the farm manager (C20); claims only raise claimed amounts, never
   beyond the funded amount (C06).
   NOT proved: the inductive invariant over all histories itself (balance >= positions + unclaimed budgets per
   denom). It is checked on every run, on the IMPLEMENTATION's snapshots, by the decidable monitor
   Monitors.mon_C05 after every operation of every generated history, and through the correspondence.
   Statements only. *)
From MD.Model Require Import Base Ownable Epoch PoolMath Types PoolManager FarmManager Chain.
From MD.Proofs Require Import ChainProofs AtomicProofs WeightProofs FarmProofs RewardProofs.

Theorem C05_position_created_with_attached_lp : forall w sender funds oid dur receiver s' msgs,
  create_position w sender funds oid dur receiver = Ok (s', msgs) ->
  msgs = [] /\
  exists lp recv identifier,
    one_coin funds = Ok lp /\
    fm_min_unlock (fm_cfg (w_fm w)) <= dur <= fm_max_unlock (fm_cfg (w_fm w)) /\
    recv = match receiver with Some r => r | None => sender end /\
    (match receiver with Some r => sender = fm_pool_manager (fm_cfg (w_fm w)) \/ sender = r | None => True end) /\
    identifier = match oid with Some id => ("u-" ++ id)%string | None => ("p-" ++ string_of_Z (fm_pos_counter (w_fm w) + 1))%string end /\
    sfind pos_id identifier (fm_positions (w_fm w)) = None /\
    fm_positions s' = sinsert pos_id {| pos_id := identifier; pos_lp := lp; pos_dur := dur; pos_open := true; pos_exp := None; pos_recv := recv |}
                              (fm_positions (w_fm w)) /\
    fm_farms s' = fm_farms (w_fm w) /\ fm_cfg s' = fm_cfg (w_fm w) /\ fm_own s' = fm_own (w_fm w).
Proof. exact create_position_spec. Qed.

Theorem C05_withdrawal_pays_at_most_the_recorded_amount : forall w sender funds id em s' msgs,
  withdraw_position w sender funds id em = Ok (s', msgs) ->
  funds = [] /\
  exists p, sfind pos_id id (fm_positions (w_fm w)) = Some p /\ pos_recv p = sender /\
    fm_positions s' = sremove pos_id id (fm_positions (w_fm w)) /\
    fm_farms s' = fm_farms (w_fm w) /\ fm_cfg s' = fm_cfg (w_fm w) /\ fm_own s' = fm_own (w_fm w) /\
    fm_pos_counter s' = fm_pos_counter (w_fm w) /\
    let lp := denom_of (pos_lp p) in let amount := amount_of (pos_lp p) in
    let now := seconds (w_block w) in
    ((~ (em = Some true /\ position_is_expired p now = false) /\
      (exists e, pos_exp p = Some e /\ e <= now) /\
      msgs = (if amount =? 0 then [] else [send_to (pos_recv p) lp amount]))
     \/
     (em = Some true /\ position_is_expired p now = false /\
      exists tp owners per collector,
        0 <= tp < amount /\ tp * 10 <= amount * 9 /\
        0 <= per /\ 0 <= collector /\ Z.of_nat (List.length owners) * per + collector <= tp /\
        (owners = [] -> collector = tp) /\
        msgs = (map (fun o => send_to o lp per) owners ++
                (if 0 <? collector then [send_to (fm_fee_collector (fm_cfg (w_fm w))) lp collector] else []) ++
                (if ssub amount tp =? 0 then [] else [send_to (pos_recv p) lp (ssub amount tp)]))%list)).
Proof. exact withdraw_position_spec. Qed.

Theorem C05_close_farm_refunds_exactly_the_remainder : forall w sender funds id s' msgs,
  close_farm w sender funds id = Ok (s', msgs) ->
  funds = [] /\ exists f, sfind f_id id (fm_farms (w_fm w)) = Some f /\
    (f_owner f = sender \/ owner (fm_own (w_fm w)) = Some sender) /\
    s' = fm_set_farms (w_fm w) (sremove f_id (f_id f) (fm_farms (w_fm w))) /\
    let rem := ssub (amount_of (f_asset f)) (f_claimed f) in
    msgs = (if 0 <? rem then [{| sm_msg := MBankSend (f_owner f) [(denom_of (f_asset f), rem)];
                                 sm_id := CLOSE_FARMS_ERR_REPLY_CODE; sm_reply := RError |}] else []).
Proof. exact close_farm_spec. Qed.

Theorem C05_claims_never_exceed_the_funded_amount : forall modified fs fs',
  foldM (fun fs m =>
           let* f := of_option (sfind f_id (fst m) fs) "panic: unwrap on None" in
           let* c := cadd U128_MAX (f_claimed f) (snd m) in
           let* _ := ensure (c <=? amount_of (f_asset f)) "FarmExhausted" in
           Ok (sinsert f_id {| f_id := f_id f; f_owner := f_owner f; f_lp := f_lp f; f_asset := f_asset f;
                               f_claimed := c; f_rate := f_rate f; f_start := f_start f; f_end := f_end f |} fs))
        modified fs = Ok fs' ->
  Forall (fun m => 0 <= snd m) modified ->
  forall id f', sfind f_id id fs' = Some f' ->
    exists f, sfind f_id id fs = Some f /\ farm_same_but_claimed f f' \/ (sfind f_id id fs = Some f' /\ f = f').
Proof. exact claim_farm_update_bounded. Qed.

Print Assumptions C05_position_created_with_attached_lp.
Print Assumptions C05_withdrawal_pays_at_most_the_recorded_amount.
Print Assumptions C05_close_farm_refunds_exactly_the_remainder.
Print Assumptions C05_claims_never_exceed_the_funded_amount.
