#!/bin/bash
# seedtest.sh <seed-id> <cmd...> — apply a seeded change to /repo, run the command, undo the change
ID=$1; shift
cd /repo && git apply /verif/seeded/$ID/patch.diff || exit 2
( cd /verif && "$@" ); RC=$?
git -C /repo checkout -- . 
echo "seed=$ID exit=$RC"
