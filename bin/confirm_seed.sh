#!/bin/bash
# confirm_seed.sh <worktree> <outdir> <id> — confirm a seeded change in a scratch worktree:
#   (1) with patch + demo applied: whole suite passes except the demo test(s); (2) demo alone passes.
# writes <outdir>/<id>.confirm.json
WT=$1; OUT=$2; ID=$3
export CARGO_TARGET_DIR=$WT/target CARGO_NET_OFFLINE=true LD_LIBRARY_PATH=/root/miniconda/lib
cd $WT || exit 2
git checkout -q -- . ; git clean -qfd -e target
git apply $OUT/$ID.patch.diff || { echo "{\"id\":\"$ID\",\"error\":\"patch does not apply\"}" > $OUT/$ID.confirm.json; exit 1; }
git apply $OUT/$ID.demo.diff  || { echo "{\"id\":\"$ID\",\"error\":\"demo does not apply\"}" > $OUT/$ID.confirm.json; git checkout -q -- .; git clean -qfd -e target; exit 1; }
cargo test --workspace --no-fail-fast --offline > $OUT/$ID.with.log 2>&1
WITH_FAILED=$(grep -E "^test .* \.\.\. FAILED" $OUT/$ID.with.log | sed 's/^test \(.*\) \.\.\. FAILED/\1/' | sort -u | tr '\n' ' ')
WITH_PASSED=$(grep -cE "^test .* \.\.\. ok" $OUT/$ID.with.log)
COMPILED=$(grep -c "error\[E\|error: could not compile" $OUT/$ID.with.log)
git checkout -q -- . ; git clean -qfd -e target
git apply $OUT/$ID.demo.diff
cargo test --workspace --no-fail-fast --offline > $OUT/$ID.without.log 2>&1
WO_FAILED=$(grep -E "^test .* \.\.\. FAILED" $OUT/$ID.without.log | sed 's/^test \(.*\) \.\.\. FAILED/\1/' | sort -u | tr '\n' ' ')
WO_PASSED=$(grep -cE "^test .* \.\.\. ok" $OUT/$ID.without.log)
git checkout -q -- . ; git clean -qfd -e target
printf '{"id":"%s","compile_errors":%s,"with_change_failed":"%s","with_change_passed":%s,"without_change_failed":"%s","without_change_passed":%s}\n' "$ID" "$COMPILED" "$WITH_FAILED" "$WITH_PASSED" "$WO_FAILED" "$WO_PASSED" > $OUT/$ID.confirm.json
cat $OUT/$ID.confirm.json
