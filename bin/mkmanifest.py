#!/usr/bin/env python3
"""Regenerates MANIFEST.json from bin/propcfg.py (claimed properties) — keeps the manifest valid at all times."""
import json, os, sys
ROOT = os.path.dirname(os.path.dirname(os.path.abspath(__file__)))
sys.path.insert(0, os.path.join(ROOT, "bin"))
from propcfg import PROPS, NOT_APPLICABLE
ids = [json.loads(l)["id"] for l in open(os.path.join(ROOT, "properties.jsonl"))]
checks = []
for pid in ids:
    if pid not in PROPS:
        continue
    c = PROPS[pid]
    checks.append({
        "property_id": pid,
        "quick_cmd": "bin/check %s quick" % pid,
        "thorough_cmd": "bin/check %s thorough" % pid,
        "evidence_file": "/verif/evidence/%s.json" % pid,
        "replay_cmd_template": "bin/check replay {path}",
        "engine": "rocq-model+correspondence",
        "level_claimed": {"category": "proof", "text": c["level_text"], "design_ref": c.get("design_ref", "DESIGN.md §6 " + pid)},
        "level_note": c["level_note"],
        "technique": c.get("technique", "machine-checked proof in Rocq (Coq 8.16.1) over a Gallina model of the contracts; model tied to /repo by a differential correspondence check (model evaluated by vm_compute vs. real contracts on cw-multi-test) plus Coq-defined property monitors on the implementation's traces"),
    })
na = [{"property_id": pid, "reason": NOT_APPLICABLE.get(pid, "not yet claimed: model/theorems for this property are not complete in this revision (see DESIGN.md §12 status)")} for pid in ids if pid not in PROPS]
m = {
    "version": 1,
    "setup_cmd": "bin/check setup",
    "hooks": {
        "guard": "mantra_dex_verif",
        "enable": "no source hooks are needed: every observation goes through public entry points, public helpers and raw storage keys; the harness builds /repo's crates as path dependencies (cargo build --release --offline in /verif/harness)",
        "baseline_off_cmd": "cd /repo && cargo test --workspace --no-fail-fast --offline",
        "source_commits": [],
        "add_only": True,
    },
    "engines": [{"name": "rocq-model+correspondence", "path": "/verif/coq, /verif/harness, /verif/bin/check",
                 "serves_properties": [c["property_id"] for c in checks],
                 "kind_free_text": "Coq 8.16.1 development (model, proofs, pinned property theorems) + Rust harness executing the real contracts + vm_compute evaluation of the model and of Coq-defined monitors on the same cases"}],
    "checks": checks,
    "not_applicable": na,
    "notes": "Known findings (genuine defects of the unchanged tree, recorded not repaired) are listed in /verif/known_findings.json; see DESIGN.md §7 and §12.",
}
json.dump(m, open(os.path.join(ROOT, "MANIFEST.json"), "w"), indent=1)
print("claimed:", [c["property_id"] for c in checks])
