# Property table used by bin/check and bin/mkmanifest.py: which Props file holds the theorems, which
# harness families tie the model to the code (family, quick count, thorough count), and the claim text.

COMMON_NOTE = (
    "Trusted: Coq 8.16.1 kernel (vm_compute used for witnesses and for evaluating the model; no native_compute); "
    "no axioms (Print Assumptions of every theorem: Closed under the global context, re-checked every run). "
    "The theorems are about the hand-written Gallina model of the four contracts and of the chain dispatcher "
    "(coq/Model/*.v); its agreement with the code compiled from /repo's working tree is checked on every run by "
    "differential execution of generated scripts (full state snapshot after every operation, query answers, injected "
    "faults) — sampled, not proved. Platform semantics = cw-multi-test 2.4.0 + mantra-common-testing StargateMock; "
    "cosmwasm-std / cw-ownable / mantra-dex-std arithmetic and helpers modelled from their sources.")

TECH = ("machine-checked proof in Rocq (Coq 8.16.1) over a Gallina model of the contracts; model tied to /repo by a "
        "differential correspondence check (model evaluated by vm_compute vs. real contracts on cw-multi-test)")

def P(props, families, text=None, note=COMMON_NOTE, **kw):
    d = {"props": props, "families": families, "level_text": text, "level_note": note, "technique": TECH,
         "assumptions": ["cw-multi-test 2.4.0 / StargateMock as chain semantics", "library arithmetic modelled from source",
                         "message payloads range over their Rust types (Uint128, Decimal, u64, u32, u8)"]}
    d.update(kw)
    return d

PROPS = {
    "C01": P("Props/C01.v", [("pool-scn", 48, 400), ("chain-pool", 24, 250), ("fault-scn", 16, 200), ("probe-scn", 21, 84)],
        "PROOF of the backing invariant over all histories: per-message accounting for every pool-manager message, sender and "
        "funds (reserves' + what the emitted messages take out <= reserves + attached funds, per denom: pm_execute_accounted), "
        "then induction over the chain interpreter (process_pool: arbitrary call trees, the swap -> reply -> deposit chain of "
        "single-asset provisions with its buffer, locked deposits calling the farm manager, rejected operations, injected bank "
        "faults): in every world reachable from genesis, for every denom, sum of the reserves of all pools <= the pool manager's "
        "bank balance (C01_backed_in_every_reachable_world). Assumes no transaction is signed by the pool manager's own address "
        "and configured creation fees < 2^127. The side clause 'excess comes only from donations / the odd unit' is a theorem over "
        "histories of ALL operations (see OVER HISTORIES below; side conditions checked along the run: no fee collector or farm "
        "owner is the pool manager itself). PARTIAL only for 'only minimum-liquidity LP is held' (per-transaction theorem for "
        "first deposits + C02's locked-minimum theorems + monitor). The inequality is also evaluated on the "
        "implementation's snapshots by the Coq monitor mon_C01 after every operation of every generated history (pools sharing "
        "denoms, LP denoms used as pool assets, donations, odd single-asset deposits, routes, faults).",
        monitor="mon_C01f"),
    "C02": P("Props/C02.v", [("pool-scn", 48, 400), ("chain-pool", 32, 250), ("probe-scn", 21, 84)],
        "Constant product: proved (mint = min of the two proportional shares, never more than proportional in either asset, hence "
        "x*y/S^2 never decreases through a deposit - also AT HANDLER LEVEL (DepositValue.v, C02_deposit_handler_never_dilutes: provide_liquidity on a funded two-asset pool emits one mint of m with m x <= a S, m y <= b S, adds exactly the attached coins to the reserves, hence x y (S+m)^2 <= (x+a)(y+b) S^2); first deposit isqrt(a*b)); withdrawals (both pool types): the handler pays "
        "exactly floor(reserve*burned/supply) per asset (after the repair fix: c886314; at most pro-rata, at least pro-rata minus "
        "one unit, any LP amount worth >= 1 unit redeemable) and burns exactly the LP received; LP is minted only by deposits and "
        "burned only by withdrawals (no other message emits a token-factory mint/burn). PARTIAL: the stableswap mint vs. exact "
        "invariant growth is not a theorem (correspondence only; stableswap rounding is known finding F-ss-round); the locked "
        "minimum of stableswap pools is covered by the surplus-never-decreases theorem but its amount is not pinned by a theorem."),
    "C05": P("Props/C05.v", [("farm-scn", 48, 400), ("fault-scn", 24, 250), ("manyfarms-scn", 8, 100), ("probe-scn", 21, 84)],
        "FULL PROOF of the custody invariant over all histories: per-message accounting for every farm-manager message, sender "
        "and funds (obligations' + sent <= obligations + attached funds, per denom), then induction over the chain interpreter "
        "(arbitrary call trees, the pool manager locking LP for depositors, replies, rejected operations, injected faults at every "
        "bank call, tolerated refund failures): in every world reachable from genesis, for every denom, the farm manager's bank "
        "balance >= all positions' recorded LP + (funded - claimed) of all live farms; reward denom = LP denom covered. Assumes "
        "transactions are not signed by the farm manager's own address. The same inequality is evaluated on the implementation's "
        "snapshots by the Coq monitor mon_C05 on every run.",
        monitor="mon_C05"),
    "C06": P("Props/C06.v", [("farm-scn", 64, 400), ("manyfarms-scn", 16, 120), ("probe-scn", 21, 84)],
        "PARTIAL. Proved: every reward entry is floor(rate*share) for an epoch strictly after the claimant's cursor, from the farm's "
        "start, before its end, within the farm's remaining budget; claimed amounts only grow and never exceed the funded amount; a "
        "claim moves the cursor to its bound (no epoch paid twice). Per farm-epoch: sum over ANY users of floor(rate*w_i/total) <= rate whenever sum w_i <= total "
        "(C06_epoch_emission_bound, and x epochs over any span) - conditional on C10's weight clause. Not proved unconditionally: sum over users <= emission and "
        "'no claim makes another user's rightful claim fail' — false of the unchanged code in the recorded classes F-until, F-sat, "
        "F-clamp (witness scripts replayed on the implementation every run) and otherwise covered by the correspondence only."),
    "C07": P("Props/C07.v", [("farm-scn", 64, 400), ("manyfarms-scn", 16, 120), ("probe-scn", 21, 84)],
        "PARTIAL. Proved: the per farm-epoch formula (floor(rate * user weight / total weight), carry-forward weights, rounding "
        "bounds); cursor movement. Refuted with "
        "witnesses replayed on the implementation (F-until, F-first-epoch). Schedule independence outside those "
        "classes: see the farm-level theorem below (the farm scenarios query Rewards before claims and split claims with until_epoch; compared with the model on "
        "every run)."),
    "C14": P("Props/C14.v", [("pool-scn", 40, 400), ("fault-scn", 32, 250), ("probe-scn", 21, 84)],
        "PROOF at transaction level on the chain model, for every world, sender, pool, amount and tolerance: a successful "
        "single-asset ProvideLiquidity transaction IS the swap of floor(amount/2) on the pool as it was (perform_swap, caller's swap "
        "tolerance) followed by the ordinary two-asset deposit (provide_liquidity) of the kept half plus exactly the swap's proceeds, "
        "made by the pool manager for the chosen receiver (or locked for it) on the pool as the swap left it: same reserves, LP and "
        "fees as those two handlers produce (C14_single_asset_is_swap_then_deposit); the single-asset buffer is empty in every world "
        "reachable from genesis by any history (C14_no_bookkeeping_left, by the same induction over call trees as C01); all-or-nothing "
        "and refusal with swaps disabled (chain model, faults at every internal call); refused on empty and >2-asset pools; never "
        "locks for or expands a position of someone else. Gap: the comparison is with the two handlers run by the pool manager, not "
        "with a depositor doing both steps by hand (who would receive the proceeds in between) — balances are covered by C01 and by "
        "the correspondence (odd/even amounts, locks, tolerances, faults). Monitor mon_C14: buffer flag clear in every observed snapshot."),
    "C19": P("Props/C19.v", [("pool-scn", 64, 400), ("chain-pool", 16, 200), ("probe-scn", 21, 84)],
        "PARTIAL. Proved: Newton results through the swap path always meet the stopping test, an exhausted budget is ConvergeError; "
        "output + fees never exceed the reserve; the exact-invariant oracle (integer polynomial, strictly increasing) is sound. "
        "Refuted with kernel-evaluated witnesses replayed on the implementation: 2-unit accuracy (F-ss-D: D stops at 1.0 whole "
        "token) and the deposit-side D returned unconverged (F-d-core). Proved for the swap path's y-iteration (NewtonAccuracy.v, "
        "C19_y_iteration_solves_its_quadratic_within_two_newton_steps): the returned y is within one unit of an iterate t with "
        "-2 g'(t) < g(t) <= g'(t) for the quadratic g it solves, so quote deviations come only from the coefficients (D, floors), "
        "never from that iteration. Not proved: a universal accuracy bound for converged "
        "results in the supported range (a convergence analysis of two cascaded integer Newton iterations is out of reach here); "
        "that residue is covered only by the correspondence with the pinned model."),
    "C03": P("Props/C03.v", [("pool-scn", 48, 400), ("chain-pool", 32, 250), ("probe-scn", 21, 84)],
        "Constant product: full proof. For every executed swap (perform_swap is the single code path of direct swaps, every router "
        "hop and the internal swap of single-asset deposits), for all reserves, offers and fee settings incl. zero, x*y computed "
        "from the reported reserves does not decrease, for every pool of the state; lifted to routes of any length (pools may "
        "repeat) and to arbitrary swap sequences; corollary: a pool that did not gain X did not lose Y (no profitable round "
        "trip on a pool). Stableswap: the literal claim is false of the unchanged code (output rounded in the trader's "
        "favour, known finding F-ss-round); for stableswap pools the check relies on the correspondence with the pinned model "
        "(reference-relative), not on a theorem — this part is partial."),
    "C04": P("Props/C04.v", [("pool-scn", 48, 400), ("chain-pool", 32, 250), ("probe-scn", 21, 84)],
        "Full proof at handler level for both pool types: every swap computation has a gross output such that swap/protocol/burn "
        "fees are floor(gross*share), extra fees are floored one by one, return = gross - all fees; perform_swap adds the whole "
        "offer to the offer reserve and removes exactly return + protocol + burn from the ask reserve, touching nothing else; "
        "the emitted messages are exactly: return to the chosen receiver, burn, protocol fee to the collector; in a route hop "
        "i+1 consumes exactly hop i's return, only the final amount is sent, fee messages are the hops' concatenation. "
        "Balances follow from the message lists by the chain model (bank module), validated by the correspondence."),
    "C08": P("Props/C08.v", [("farm-scn", 40, 400), ("pool-scn", 24, 300), ("auth-scn", 16, 200), ("probe-scn", 21, 84)],
        "Full proof: roles for close/withdraw/expand/create-for-other; the pool manager, on behalf of a depositor, only ever creates "
        "a position for / tops up a position of that depositor; a normal withdrawal of a closed position succeeds IF AND ONLY IF "
        "sender = owner, no funds, unlock instant reached (boundary included), pays exactly the recorded amount and deletes the "
        "position; close / partial close effects (old' + new = old, unlock = close time + duration); create/expand add exactly "
        "the attached LP; frame theorem: no farm-manager message from anyone else changes a position; generated identifiers "
        "never collide in any reachable world (invariant over all histories)."),
    "C09": P("Props/C09.v", [("farm-scn", 64, 400), ("probe-scn", 21, 84)],
        "Full proof: closed form of the penalty (min(base x remaining/duration x weight/amount, 90%), each product floored at 18 "
        "digits), never above the cap, non-increasing in time, zero once unlocked; complete accounting of both withdrawal paths: "
        "penalty < amount and <= 90% of it, owner gets amount - penalty, n active-farm owners get per each and the collector the "
        "rest with n*per + collector <= penalty (all to the collector without active farm owners), position deleted."),
    "C10": P("Props/C10.v", [("farm-scn", 64, 400), ("probe-scn", 21, 84)],
        "Weight curve: full proof (closed form; >= amount; <= 16x amount via monotonicity + evaluation at one year; monotone in "
        "amount and duration; every change written at epoch current+1 only). The clause 'total >= sum of users' weights' is NOT "
        "proved: it is false of the unchanged code in the saturating-subtraction class (known finding F-sat); that clause is "
        "covered by the correspondence only — partial."),
    "C11": P("Props/C11.v", [("farm-scn", 40, 400), ("manyfarms-scn", 24, 120), ("probe-scn", 21, 84)],
        "Proof of the lifecycle effects: creation (all checks, budget = full reward, rate = floor(reward/(end-start)), epochs within "
        "buffer, fresh identifier, sweep of expired farms, live farms below the limit at creation), exact funds and fee routing "
        "(fee to collector, overpayment refunded) outside the zero-fee/other-denom class (known finding F-zero-fee); expansion "
        "(owner only, before end/expiry, attached = declared, multiple of rate, end += amount/rate); close (farm owner or contract "
        "owner, refund of exactly amount - claimed to the farm's owner only). THE LIMIT OVER ALL HISTORIES (FarmLimit.v, "
        "C11_never_more_farms_than_the_limit_in_any_reachable_world): in every world reachable from genesis, for every LP denom, "
        "#stored farms (hence #unexpired) <= max_concurrent_farms whenever that limit is <= 100 - every farm-manager message from "
        "every sender preserves it (creation sweeps the expired farms first and demands live < limit; the limit can only be "
        "raised); for limits > 100 the clause is false (F-clamp, known finding)."),
    "C12": P("Props/C12.v", [("pool-scn", 80, 500), ("probe-scn", 21, 84)],
        "Forward quotes: full proof. Simulation equals the computation an executed Swap uses (same return and fee amounts, hence same "
        "messages); SimulateSwapOperations equals the final amount of ExecuteSwapOperations on routes visiting each pool at most "
        "once (pools may share denoms), any length. Reverse quotes on constant product: 'quote+1 suffices' is PROVED for requested amounts up to 10^18 units, for all "
        "reserves and fee settings (ReverseQuote.v, C12_reverse_quote_plus_one_suffices_up_to_1e18); it is false of "
        "the unchanged code for larger amounts (18-digit truncation of 1/(1-fees), known finding F-rev18); covered by the "
        "correspondence (ReverseSimulation answers compared on every run) — that clause is partial."),
    "C13": P("Props/C13.v", [("pool-scn", 48, 400), ("chain-pool", 32, 250), ("probe-scn", 21, 84)],
        "Full proof for the documented predicates: tolerance = min(max_slippage or 1%, 50%); accept-iff characterisations without and "
        "with belief price; monotone in the tolerance; applied to every executed swap with its own computation; minimum_receive; "
        "constant-product deposit tolerance accept-iff, monotone, exact proportion always accepted, tolerance > 1 refused; a "
        "rejected operation changes nothing (chain model). The two stableswap defects of the unchanged tree (spread in the wrong "
        "precision, deposit tolerance rejecting everything: F-ss-spread, F-ss-tol) are outside the theorems — known findings."),
    "C15": P("Props/C15.v", [("auth-scn", 64, 400), ("farm-scn", 16, 200), ("epoch", 64, 800), ("probe-scn", 21, 84)],
        "Full proof at transaction level on the chain model, from any world and any sender: config changes (feature toggles "
        "included), ownership proposals and renouncements on all four contracts are accepted only from the current owner and only "
        "without funds; ownership changes only by accept-by-pending (before expiry) or renounce-by-owner; rejected => no state "
        "change; farm expansion / closing / position roles; pool manager's owner record untouched by any other message."),
    "C16": P("Props/C16.v", [("pool-scn", 40, 400), ("chain-pool", 40, 250), ("probe-scn", 21, 84)], text=
        "Full proof: everything a successful CreatePool has checked (2 assets CP / 2-4 distinct assets + amp > 0 stableswap, "
        "decimals length, each fee < 100%, total <= 20%, identifier, fees paid exactly with no extra funds) and the only messages "
        "it emits; the new pool record; over ALL histories (induction over the chain interpreter, faults included) no pool is "
        "removed and identifier / denoms / decimals / type / fees / LP denom never change; LP denom is an injective function of "
        "the identifier in every reachable world, so identifiers and LP denoms are unique. (validate_fees_are_paid / "
        "validate_no_additional_funds are kept as the model's own definitions in the statement.)"),
    "C17": P("Props/C17.v", [("pool-scn", 56, 400), ("chain-pool", 24, 250), ("probe-scn", 21, 84)],
        "Proof at transaction level on the chain model: with swaps disabled a direct swap, ANY route containing the pool and a "
        "single-asset deposit (through its internal swap sub-message) are rejected; deposits disabled blocks every deposit shape; "
        "withdrawals disabled blocks withdrawals; rejected => no effect; a toggle changes only the named flags of the named pool; "
        "pricing ignores the status; new pools start enabled. THE FRAME as one theorem (C17_switches_change_nothing_else): setting "
        "the switches of any pool T to any status changes nothing else — every swap, route, deposit (single-asset first leg "
        "included) or withdrawal, on T or on any other pool, whose own switch is on before and after, returns the same result "
        "(same error or same messages and same state up to the changed switches), for all worlds, senders, funds and messages; "
        "stated at handler level (pm_execute), the sub-messages being the same they run the same. Monitor mon_C17: no accepted "
        "operation with its switch off in any observed history."),
    "C18": P("Props/C18.v", [("epoch", 320, 6000)],
        "Full proof: every clause of C18 (failure before genesis, definedness from genesis on, id = floor((now-genesis)/duration), "
        "monotonicity, +1 per duration, start(id) = genesis + id*duration without wrap-around, now in [start(cur), start(cur+1)), "
        "clean failure exactly on u64/Timestamp overflow, validation of duration/genesis at instantiate and on every update in "
        "every reachable state) is a kernel-checked theorem over the Gallina model of the epoch manager, for all u64 inputs.",
        rule="script on the real epoch-manager; non-trivial = accepted instantiation + answered CurrentEpoch; distinct by case text"),
    "C20": P("Props/C20.v", [("fault-scn", 64, 250), ("farm-scn", 16, 200), ("probe-scn", 21, 84)],
        "Full proof on the chain model with fault injection at every internal bank / token-factory call: a rejected operation leaves "
        "the world unchanged (only the one-shot fault marker is consumed); the pool manager never swallows an error (all "
        "sub-messages fire-and-forget, the single reply is on-success); the farm manager tolerates only failures of close-farm "
        "refunds and its reply handler does nothing; closing a farm is never blocked — under any pending fault an authorised close "
        "succeeds, removes exactly that farm, and the bank either performed exactly the refund to the farm's owner or did not "
        "move. The platform's atomicity itself is the chain model's (cw-multi-test), validated by the fault family."),
}
for _pid in ("C02", "C03", "C06", "C07", "C10", "C11", "C12", "C13"):
    PROPS[_pid]["extra_props"] = ["Props/Findings.v"]
NOT_APPLICABLE = {}

# decidable per-operation forms of the properties (coq/Model/Monitors.v), evaluated on the implementation's observed
# snapshots: they turn a broken correspondence into a concrete failing history
for _k, _m in {"C10": "mon_C10", "C07": "mon_C07q", "C02": "mon_C02w", "C09": "mon_C09", "C12": "mon_C12r", "C13": "mon_C13", "C03": "mon_C03", "C04": "mon_C04", "C06": "mon_C06w", "C08": "mon_C08r", "C11": "mon_C11c",
               "C14": "mon_C14s", "C15": "mon_C15r", "C16": "mon_C16c", "C17": "mon_C17", "C20": "mon_C20f"}.items():
    PROPS[_k]["monitor"] = _m

# the public pure helpers called directly (harness/src/math.rs, coq/Model/CasesMath.v): thousands of numeric points per run
# (u128 extremes, 1-unit amounts, fee sums of exactly 20%, decimals 0..24, amplifications 1..u64::MAX), compared with the
# model's functions of the same names; the math monitors are the decidable numeric forms of the properties
for _k, _m in {"C02": None, "C03": "mon_math_C03", "C04": "mon_math_C04", "C12": "mon_math_C12", "C13": None, "C19": "mon_math_C19"}.items():
    PROPS[_k]["families"] = PROPS[_k]["families"] + [("math-fn", 960, 9600)]
    if _m:
        PROPS[_k]["math_monitor"] = _m
    PROPS[_k]["level_text"] = (PROPS[_k]["level_text"] or "") + (
        " Numeric kernels tied to the code directly as well: family math-fn calls the contracts' public pure helpers (compute_swap "
        "for both pool types, compute_offer_amount followed by the swap of quote + 1, compute_d, compute_d_with_pool_info, "
        "compute_lp_mint_amount_for_stableswap_deposit, assert_slippage_tolerance, within_one_percent) on ~1000 (quick) / ~10000 "
        "(thorough) boundary-aimed numeric points per run and compares every answer (values, errors, panics) with the model's "
        "function of the same name" + ("; monitor %s evaluates the property's numeric clause on the implementation's answers." % _m if _m else "."))

# additions to the claim texts: whole-transaction theorems (coq/Proofs/TxBalances.v) and monitors
_EXTRA = {
 "C02": "THE LOCKED MINIMUM OVER ALL HISTORIES (LockedLiquidity.v): the pool manager's surplus (balance minus all reserves) never decreases, per denom, through any history (C02_surplus_never_decreases, from the chain induction process_pool); the first deposit into a constant-product pool adds exactly MINIMUM_LIQUIDITY_AMOUNT of the LP denom to it (C02_first_deposit_locks_the_minimum), hence in every later world of every history at least that much LP is held by the pool manager beyond all reserves and can never be redeemed (C02_minimum_liquidity_stays_locked_forever; kernel-evaluated example ending with exactly 1000 locked). Whole-transaction theorem (C02_withdrawal_transaction_moves_exactly_these_balances): a withdrawal pays the sender exactly the floored pro-rata refunds out of the pool manager, destroys exactly the LP sent and changes no other bank balance. Monitor mon_C02w (x*y/S^2 of constant-product pools never decreases through a deposit / withdrawal; LP supplies move only then; a withdrawal pays exactly floor(reserve*burned/supply) per asset, takes exactly that off the reserves and burns exactly the LP sent).",
 "C11": "Monitor mon_C11c on the implementation: a farm's identity, owner, LP denom, reward denom, rate and start never change, budget / claimed / end only grow; an expansion raises the budget by exactly the attached amount (which the farm manager's balance gains) and the end by amount/rate epochs; a creation that sweeps no expired farm records as budget exactly what the farm manager's balance gained, and the creator paid exactly budget + what the fee collector gained.",
 "C04": "Whole-transaction theorem (C04_swap_transaction_moves_exactly_these_balances): for a direct swap the new value of EVERY bank balance is given - sender pays the offer to the pool manager, out of it go exactly return (receiver), protocol fee (collector), burn fee (destroyed); nobody else's balance changes in any denom; the route form is C12_route_quote_is_what_the_route_transaction_pays. Monitor mon_C04 (the pool manager's balance moves exactly as the reserves through swaps and routes).",
 "C08": "Whole-transaction theorem (C08_withdrawal_transaction_moves_exactly_these_balances): a regular withdrawal moves exactly the recorded LP amount from the farm manager to the owner and no other balance. Monitor mon_C08 (a transaction only creates or changes positions of its sender).",
 "C09": "Whole-transaction theorem (C09_emergency_withdrawal_transaction_moves_exactly_these_balances): every bank balance after an emergency withdrawal. Monitor mon_C09 (the owner receives between 10% and 100%; a regular withdrawal returns all).",
 "C12": "Transaction-level forms: the Simulation on the state before a swap transaction gives exactly the receiver's gain, the collector's gain and what leaves the pool manager (C12_quote_is_what_the_swap_transaction_pays); SimulateSwapOperations gives exactly what the route transaction sends the receiver (C12_route_quote_is_what_the_route_transaction_pays). Monitor mon_C12 on the implementation: a swap / route executed right after its quote pays the receiver the quoted amount, and a direct swap REPORTS (event attributes) exactly the quoted return, spread and fee amounts.",
 "C16": "Exact fees as one equation: the two validations of CreatePool force the attached funds to be, denom by denom, exactly creation fee + token-factory fee (C16_creation_funds_are_exactly_the_fees), hence a creation leaves the pool manager's surplus unchanged (C01_excess_through_a_pool_creation). Whole-transaction theorem (C16_creation_transaction_moves_exactly_these_balances): the attached funds go to the pool manager, out of which exactly the creation fee goes to the collector and exactly the token-factory fee is destroyed; no other balance changes.",
 "C01": "OVER HISTORIES OF ALL OPERATIONS (ExcessLedger.v, C01_excess_is_exactly_donations_plus_odd_units): after any history made of every kind of pool-manager message (pool creations, deposits of one or several assets unlocked or locked in the farm manager - nested contract calls, the swap-reply-deposit chain -, swaps, routes, withdrawals, ownership / configuration / switch messages), every kind of farm-manager message (farm creations with their sweeps, expansions, closings through reply-on-error refunds, claims, all position operations incl. emergency withdrawals, configuration), transactions to the epoch manager and the fee collector, bank sends, block changes, faults and rejected operations, the excess in every non-LP denom is EXACTLY the initial excess plus the ledger, whose entries are only plain bank sends to the contract and the single unit of accepted odd single-asset deposits (kernel-evaluated example included). THE EXCESS CLAUSE is also proved transaction by transaction as exact equalities on (balance - reserves), per denom (TxExcess.v, theorems C01_excess_through_a_swap / _route / _withdrawal / _deposit / _single_asset_deposit / _donation): a swap or a withdrawal leaves the excess exactly unchanged (unless the trader names the pool manager itself as receiver or the owner made it its own fee collector), a first deposit adds exactly the minimum liquidity in the LP denom, an unlocked single-asset deposit adds exactly (amount mod 2) in the deposit denom - the odd unit -, a bank send adds what was sent. The same equalities for locked deposits and pool creations are checked on the implementation by mon_C04 / mon_C01x.",
 "C17": "The frame is also proved for WHOLE TRANSACTIONS (FrameChain.v, C17_accepted_transactions_are_unaffected_by_the_switches): by a relational induction over the chain interpreter (call trees, the swap -> reply -> deposit chain of single-asset provisions, locked deposits calling the farm manager, replies, tolerated refund failures), a pool operation or any transaction to another contract that is accepted both before and after the switches of a pool were changed has exactly the same effect on the whole world - every balance, every contract state - up to the changed switches.",
 "C10": "Monitor mon_C10 on the implementation (the whole LP_WEIGHT_HISTORY is observed): every position operation moves the latest weight of the position's owner and of the contract by calculate_weight(amount, position's duration) - saturating at zero on removals -, nothing else moves any latest weight, closing a closed position is never accepted, only addresses with an open position in an LP denom have weight entries for it. A user without open positions in an LP denom has no weight in it: after closing a position or withdrawing an open one, if no open position of the user in that denom is left, every weight entry of his for it is gone and his weight is 0 in every epoch (Reconcile.v, C10_no_weight_without_open_positions_after_close / _after_withdrawal). Added: C10_total_and_user_move_together_unless_a_subtraction_saturates - every weight change moves the contract total and the user's own weight by the same amount, so total - user (the weight of everybody else) is preserved except when a subtraction saturates at zero, which is exactly the class of finding F-sat.",
 "C07": "Monitor mon_C07 on the implementation (weights, farms and cursors observed): in the class covered by the theorems (the user has a cursor c, none of his weight entries for the LP denoms he stakes is older than c, the contract's history for them starts at or before c+1) an accepted Claim pays, per coin denom, exactly the sum over the farms and epochs (c, u] of floor(rate * weight in effect / total weight in effect) computed from the observed weight table by plain carry-forward. SCHEDULE INDEPENDENCE proved farm by farm and epoch by epoch (ClaimSplit.v, C07_one_claim_pays_what_two_claims_pay): the per-epoch rewards of a single claim at u2 are the concatenation of those of a claim at any intermediate epoch u1 and of the later claim at u2 computed on the state the first claim leaves (weight history synchronised at u1, farm's claimed amount increased), under explicit hypotheses that delimit the class outside the findings (all weight entries of the user in [cursor, u1+1]; the contract's history starts at or before cursor+1; budget respected); kernel-evaluated example. Lifted to all farms of one LP denom (C07_one_claim_pays_what_two_claims_pay_per_lp_denom) and END TO END to the Claim message for users staking one LP denom (ClaimTwice.v, C07_claiming_twice_pays_what_claiming_once_pays: Claim up to u1, then Claim up to u2 in any later world, send the user coin denom by coin denom exactly what the single Claim up to u2 sends; the intermediate state is derived from the first claim, the budget bound from the success of the single claim; kernel-evaluated example 262 + 262 = 524). The same END-TO-END theorem is proved for users staking ANY number of LP denoms (C07_claiming_twice_pays_what_claiming_once_pays_any_number_of_lp_denoms; claim_loop_post frames each step of the walk over the denoms against the others). Proved: the Rewards query equals what an immediate Claim pays for users staking ANY number of LP tokens, in every world reachable from genesis (C07_rewards_query_equals_claim_for_any_number_of_lp_tokens / _in_every_reachable_world; ClaimFrame.v: the claim's walk through the LP denoms is framed denom by denom - weight history and farm budgets of one denom do not influence the rewards of another; farm identifiers are unique by the custody invariant).",
 "C06": "Monitor mon_C06w on the implementation: claimed <= funded for every farm after every step, and - in the class of the C07 theorems - no accepted Claim pays MORE than the weight share computed from the observed weight table (which is what keeps an epoch's payouts within its emission). Over all histories: C06_payouts_never_exceed_funding_in_any_reachable_world (recorded payouts of every farm of every reachable world stay within its funding; with C05 no claim can draw on another farm's or a position's funds). Monitor mon_C06 on the implementation.",
}
for _k, _t in _EXTRA.items():
    PROPS[_k]["level_text"] = (PROPS[_k]["level_text"] or "") + " " + _t

# additions of the third session: history-level theorems resting on the signer-aware call-tree induction, monitor refinements
_EXTRA3 = {
 "C08": "OVER HISTORIES (PositionsSafe.v, C08_positions_survive_other_peoples_histories / ..._in_every_reachable_world): through ANY history of operations none of which is signed by the owner o (a user address, not one of the four contracts) - every call between the contracts, the pool manager locking LP for depositors, replies, rejected operations, injected faults - every position of o survives with the same identifier, owner, LP denom, unlocking duration, open/closed state and unlock instant and with AT LEAST its recorded amount (others can only add, through the pool manager, to an open position); a closed position does not change at all, hence its owner can withdraw it in full from the unlock instant on, however long the others' history (C08_closed_position_still_withdrawable_after_any_history_of_others). Proved by an induction over call trees that tracks who signed the transaction (inside a transaction signed by s every message is sent by s or by one of the four contracts). Kernel-evaluated example: C08_positions_example. And the withdrawal TRANSACTION of such a position succeeds in every reachable world (C08_closed_position_withdrawal_transaction_succeeds, from the C05 custody invariant).",
 "C15": "OVER HISTORIES (OwnersOnly.v, C15_only_the_owner_changes_ownership_and_configuration): while a contract's ownership is settled (an owner o, a user address, and no transfer pending) NO history of operations that o does not sign changes that contract's ownership record or configuration - epoch manager and fee collector: the whole state; pool manager: ownership record and configuration (fee collector, farm manager, creation fee); farm manager: ownership record and configuration - with every call between the contracts, replies, rejected operations and injected faults. The per-pool feature switches likewise (SwitchesSafe.v, C15_switches_move_only_by_the_owner): while the pool manager's ownership is settled, through any history its owner does not sign every pool keeps its three switches exactly as they are. Kernel-evaluated example: C15_owners_example (every privileged message of every contract attempted by non-owners).",
 "C17": "OVER HISTORIES (SwitchesSafe.v, C17_switches_move_only_by_the_owner): while the pool manager's ownership is settled (owner o, no transfer pending), through ANY history of operations that o does not sign - swaps, routes, deposits, withdrawals, pool creations, attempts at privileged messages, calls between the contracts, replies, rejected operations, injected faults - every pool keeps its three feature switches exactly as they are: what the owner disabled stays disabled (so the blocking theorems keep applying), what is enabled stays enabled. Kernel-evaluated example: C17_switches_example.",
 "C11": "OVER HISTORIES (FarmsSafe.v, C11_others_cannot_touch_a_farm / ..._in_any_reachable_world): through ANY history of operations none of which is signed by o (a user address) - every call between the contracts, replies, rejected operations, injected faults - every farm owned by o in the final world was already his at the start, with the same identifier, LP denom, reward denom and budget, emission rate, start and end; only the claimed amount may have grown. Nobody else can create a farm in his name, expand or otherwise alter it (it may only disappear: closed by the contract owner or swept on expiry, refunding o). Kernel-evaluated example: C11_farms_example.",
 "C05": "THE 'HENCE' (Redeemable.v, C05_closed_position_withdrawal_transaction_succeeds): in every world reachable from genesis with no fault being injected, the withdrawal TRANSACTION of a closed position whose unlock instant has been reached, sent by its owner, SUCCEEDS - the handler accepts it and the farm manager's balance covers the transfer of the whole recorded amount (side conditions of a real bank: the owner is not the farm manager, his balance is non-negative and stays within u128). Kernel-evaluated example: C05_redeem_example. The analogous success statement for farm refunds is not proved (a failing refund is tolerated by design, C20).",
 "C20": "Monitor mon_C20f on the implementation: a rejected operation leaves the whole snapshot unchanged, and a transaction ACCEPTED while an injected fault was pending (the only tolerated internal failure being a close-farm refund) is fully consistent - the pool manager's excess moves only as C01 allows, reserves stay backed, the farm manager's custody holds; a swap that commits although one of its transfers failed shows up as a concrete failing history.",
 "C06": "OVER HISTORIES (CursorSafe.v, C06_claim_cursor_moves_only_by_its_owner): a user's claim cursor moves only through his own transactions - through any history of operations he does not sign it is exactly what it was, so nobody else can rewind it (an epoch payable twice) or advance it (epochs lost). Kernel-evaluated example: C06_cursor_example. Monitor mon_C06w also bounds every Rewards QUERY answer of that class by the weight share (weights 0 before the user's first entry; the current epoch followed through the block changes): nobody is quoted, hence paid, for an epoch before his weight took effect.",
 "C07": "OVER HISTORIES (CursorSafe.v, C07_claim_cursor_moves_only_by_its_owner): through any history of operations a user does not sign, his claim cursor is exactly what it was - the span of epochs his next claim covers is decided by his own claims alone. Kernel-evaluated example: C07_cursor_example. Monitor mon_C07q: in the covered class every entry of a Rewards QUERY answer equals the weight share of its denom, like the payout of a Claim.",
 "C12": "Monitor mon_C12r on the implementation also covers the reverse-quote clause on whole pools: a Simulation of (ReverseSimulation quote + 1) issued right after the quote on a constant-product pool returns at least the requested amount, for requests up to 10^18 units (the pool scenarios issue this pair for every reverse quote, pools with mixed decimals included).",
 "C09": "Monitor mon_C09 also checks the split on the implementation: after an accepted emergency withdrawal the penalty goes only to the configured fee collector and to owners of farms on that LP denom, in EQUAL shares per distinct owner, nobody loses anything, and what leaves the farm manager is exactly payout + shares and at most the recorded amount.",
 "C14": "Monitor mon_C14s also checks on the implementation that an accepted single-asset deposit creates or changes only positions owned by its sender, and that a requested lock produces such a position.",
}
for _k, _t in _EXTRA3.items():
    PROPS[_k]["level_text"] = (PROPS[_k]["level_text"] or "") + " " + _t
