# Property table used by bin/check and bin/mkmanifest.py: which Props file holds the theorems, which
# harness families tie the model to the code (family, quick count, thorough count), and the claim text.
PROPS = {
    "C18": {
        "props": "Props/C18.v",
        "families": [("epoch", 320, 6000)],
        "rule": "script on the real epoch-manager; non-trivial = accepted instantiation + answered CurrentEpoch; distinct by case text",
        "assumptions": ["cw-multi-test 2.4.0 as chain semantics", "cosmwasm-std 2.2.2 Timestamp/Uint64 arithmetic modelled from source"],
        "level_text": "Full proof: every clause of C18 (failure before genesis, definedness from genesis on, id = floor((now-genesis)/duration), monotonicity, +1 per duration, start(id) = genesis + id*duration without wrap-around, now in [start(cur), start(cur+1)), clean failure exactly on u64/Timestamp overflow, validation of duration/genesis at instantiate and on every update in every reachable state) is a kernel-checked theorem over the Gallina model of the epoch manager, for all u64 inputs. The model is tied to the code on every run by executing generated scripts (boundary-aimed times, u64 extremes, config updates, ownership changes) on the real contract and on the model and comparing every answer and the full state; the decidable form of the property is also evaluated on the implementation's answers.",
        "level_note": "Trusted: Coq kernel + vm_compute; the hand-written model (coq/Model/Epoch.v, Ownable.v) whose agreement with the code is sampled, not proved; cw-multi-test as chain; cosmwasm-std Timestamp/Uint64 semantics with overflow checks on (as in the release profile). No axioms (Print Assumptions: closed).",
    },
}
NOT_APPLICABLE = {}
