#!/usr/bin/env python3
"""save_seed.py <Cxx> <A|B|..> [srcdir] — copy a confirmed seeded change from /tmp/seed/out-Cxx into /verif/seeded/Cxx-<v>/"""
import json, os, shutil, sys
pid, v = sys.argv[1], sys.argv[2]
src = sys.argv[3] if len(sys.argv) > 3 else "/tmp/seed/out-%s" % pid
dst = "/verif/seeded/%s-%s" % (pid, v)
os.makedirs(dst, exist_ok=True)
shutil.copy(os.path.join(src, v + ".patch.diff"), os.path.join(dst, "patch.diff"))
shutil.copy(os.path.join(src, v + ".demo.diff"), os.path.join(dst, "demo.diff"))
meta = json.load(open(os.path.join(src, v + ".meta.json")))
conf = json.load(open(os.path.join(src, v + ".confirm.json")))
out = {
    "id": "%s-%s" % (pid, v), "property": pid,
    "summary": meta.get("summary"), "clause_broken": meta.get("clause_broken"),
    "needs_to_manifest": meta.get("needs_to_manifest"), "demo_cmd": meta.get("demo_cmd"),
    "origin": "independent sub-agent given only the property text and a scratch worktree of /repo",
    "confirmed_by_me": {
        "how": "bin/confirm_seed.sh in a scratch worktree: (1) patch.diff + demo.diff applied, cargo test --workspace --no-fail-fast --offline; (2) demo.diff alone, same command",
        "with_change_failed_tests": conf.get("with_change_failed", "").split(),
        "with_change_passed": conf.get("with_change_passed"),
        "without_change_failed_tests": conf.get("without_change_failed", "").split(),
        "without_change_passed": conf.get("without_change_passed"),
        "compile_errors": conf.get("compile_errors"),
    },
    "detected_by": "pending",
}
json.dump(out, open(os.path.join(dst, "meta.json"), "w"), indent=1)
print("saved", dst)
