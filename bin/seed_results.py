#!/usr/bin/env python3
"""seed_results.py <lane dir>... — collect the outcome of running each seeded change's own property check
(quick tier) from frozen copies of /verif (see DESIGN.md §0.7) into seeded/results.json, update every
seeded/<id>/meta.json `detected_by`, and regenerate seeded/RESULTS.md."""
import glob, json, os, re, sys

ROOT = os.path.dirname(os.path.dirname(os.path.abspath(__file__)))
SEEDED = os.path.join(ROOT, "seeded")
RES = os.path.join(SEEDED, "results.json")


def collect(lanes):
    res = json.load(open(RES)) if os.path.exists(RES) else {}
    for lane in lanes:
        for log in glob.glob(os.path.join(lane, "out_*.log")):
            sid = os.path.basename(log)[4:-4]
            txt = open(log).read()
            viol = [l for l in txt.splitlines() if l.startswith("VIOLATION")]
            summ = [l for l in txt.splitlines() if l.startswith("property=")]
            evp = os.path.join(lane, "ev_%s.json" % sid)
            fams, monitor_codes, kind = [], [], None
            if os.path.exists(evp):
                ev = json.load(open(evp))
                fams = ev.get("coverage", {}).get("families", [])
            rp = None
            if viol:
                m = re.search(r"replay=(\S+)", viol[0])
                if m and os.path.exists(m.group(1)):
                    rp = json.load(open(m.group(1)))
                    kind = rp.get("kind")
                    monitor_codes = rp.get("monitor_codes", [])
            res[sid] = {
                "property": sid.split("-")[0],
                "detected": bool(viol),
                "violation_line": (re.sub(r"replay=\S+", "replay=<file>", viol[0]) if viol else None),
                "concrete_failing_history": bool(viol) and not viol[0].rstrip().endswith("no-failing-input-found"),
                "replay_kind": kind, "monitor_codes": monitor_codes,
                "first_difference": (rp or {}).get("first_difference"),
                "families": fams, "summary_line": summ[-1] if summ else None,
            }
    json.dump(res, open(RES, "w"), indent=1, sort_keys=True)
    return res


def render(res):
    ids = sorted(d for d in os.listdir(SEEDED) if os.path.isfile(os.path.join(SEEDED, d, "meta.json")))
    lines = ["# Seeded breaking changes — which check catches which", "",
             "Each change was produced by an independent sub-agent from the property text alone, confirmed to compile, keep the",
             "repository's test suite green and fail its own demonstration test (`meta.json`). Detection = the property's own",
             "registered quick check (`bin/check Cxx quick`) run against the patched tree from a frozen copy of /verif.",
             "`concrete` = the VIOLATION line carries a failing history found on the implementation by the property's monitor;",
             "`corr` = correspondence broken, no monitor failure found (line ends with no-failing-input-found).", "",
             "| change | property | what was changed (short) | caught | how | families with mismatches / monitor failures |",
             "|---|---|---|---|---|---|"]
    n = caught = concrete = 0
    for sid in ids:
        meta = json.load(open(os.path.join(SEEDED, sid, "meta.json")))
        r = res.get(sid)
        short = (meta.get("summary") or "").replace("|", "/").replace("\n", " ")[:150]
        if r is None:
            lines.append("| %s | %s | %s | not run yet | | |" % (sid, meta.get("property"), short))
            meta["detected_by"] = "pending"
        else:
            n += 1
            caught += r["detected"]
            concrete += r["concrete_failing_history"]
            fam = "; ".join("%s %d/%d%s" % (f["family"], f["mismatches"], f["cases"],
                                            (" mon %d" % f["monitor_violations"]) if f.get("monitor_violations") else "")
                            for f in r["families"] if f.get("mismatches") or f.get("monitor_violations"))
            how = ("concrete (monitor codes %s)" % r["monitor_codes"]) if r["concrete_failing_history"] else ("corr" if r["detected"] else "-")
            lines.append("| %s | %s | %s | %s | %s | %s |" % (sid, r["property"], short, "YES" if r["detected"] else "**NO**", how, fam))
            meta["detected_by"] = ({"check": "bin/check %s quick" % r["property"], "how": how, "families": fam} if r["detected"]
                                   else "MISSED by bin/check %s quick" % r["property"])
        json.dump(meta, open(os.path.join(SEEDED, sid, "meta.json"), "w"), indent=1)
    lines += ["", "Run so far: %d changes, %d caught by their property's own quick check, %d of them with a concrete failing history." % (n, caught, concrete)]
    for h in sorted(glob.glob(os.path.join(SEEDED, "harmless-*", "result.json"))):
        hr = json.load(open(h))
        lines += ["", "### %s (must NOT be flagged): %s" % (hr["id"], hr["what"]), ""]
        lines += ["- `%s`: exit %d, %d VIOLATION line(s) — %s" % (x["check"], x["exit"], x["violation_lines"], x["summary"]) for x in hr["results"]]
    notes = os.path.join(SEEDED, "NOTES.md")
    if os.path.exists(notes):
        lines += ["", open(notes).read()]
    open(os.path.join(SEEDED, "RESULTS.md"), "w").write("\n".join(lines) + "\n")
    print("\n".join(lines[-3:]))


if __name__ == "__main__":
    render(collect(sys.argv[1:]))
