#!/bin/bash
# Re-check every compiled Props file (and everything it depends on) with Coq's independent checker; print the axioms.
# Usage: bin/coqchk_all.sh   (from /verif; needs a completed `make` in coq/; takes several minutes)
cd "$(dirname "$0")/../coq" || exit 2
mods=$(ls Props/*.v | sed 's#Props/\(.*\)\.v#MD.Props.\1#' | tr '\n' ' ')
mkdir -p ../docs
timeout 7200 coqchk -silent -o -Q . MD $mods > ../docs/coqchk.txt 2>&1
rc=$?
echo "coqchk exit=$rc modules: $mods" >> ../docs/coqchk.txt
tail -15 ../docs/coqchk.txt
exit $rc
